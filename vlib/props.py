"""Per-property configuration: theorems audited, engines run, coverage rules."""

PROPS = {}

# theorems every store-level property rests on: the refinement of the physical model to a map and the record-list core
CORE_RL = ["Sth.C01_store_refines_map", "Sth.C08_inv", "Sth.C08_lookup", "Sth.C08_absent", "Sth.C08_codec"]

PROPS["C08"] = dict(
    modules=["Sth.Props.C08"],
    theorems=["Sth.C08_inv", "Sth.C08_lookup", "Sth.C08_absent", "Sth.C08_frame_update",
              "Sth.C08_frame_remove", "Sth.C08_codec", "Sth.C08_codec_limit_witness"],
    runs=[dict(engine="c08", quick=400, thorough=20000, nontrivial=["prev-is-prefix"])],
    rule="traces of index.Put/Update/Remove/Get/Flush on the real index.Index over the in-memory primary, keys "
         "confined to one bucket (bit sizes 8..24), small alphabets so that stored prefixes collide; after every "
         "mutation the raw record-list bytes and a Get of every universe key are compared with the Lean model and "
         "checked against the C08 specification. Non-trivial = distinct trace (hash of its op list) in which the "
         "'previous entry is a prefix of the new key' branch of index.Put was taken.",
    assumptions=["keys are non-empty after stripping the bucket bytes and no key is a proper prefix of another (the property's premise)",
                 "Update/Remove are issued for present keys only (the store checks the full key first)"],
)

PROPS["C14"] = dict(
    modules=["Sth.Props.C14"],
    theorems=["Sth.FC.C14_safe", "Sth.FC.C14_closed_once", "Sth.FC.C14_refs", "Sth.FC.C14_fd_bound",
              "Sth.FC.C14_never_closed_while_lent"],
    runs=[dict(engine="fc", quick=1500, thorough=60000, nontrivial=["open-evict", "close-removed", "shrink", "shrink-to-0"])],
    rule="random client-respecting sequences of Open/Close/Remove/Clear/SetCacheSize on the real filecache.FileCache over "
         "real temp files (2-6 names, capacities 0-5); after every op Len, Cap, the set of handles on which fstat still "
         "works and the /proc/self/fd count are compared with the Lean model and checked against the C14 clauses. "
         "Non-trivial = distinct trace with an eviction, a close of a removed-but-lent handle, or a shrinking resize.",
    assumptions=["clients close only handles they hold (the property's premise)",
                 "every exported FileCache method is one atomic step (it holds c.lock throughout — regenerated fact)"],
)

SEQ_NT_C01 = ["prev-is-prefix", "primary-rollover", "index-rollover", "primary-file-rolled", "put-update", "remove-present"]

PROPS["C01"] = dict(
    modules=["Sth.Props.C01", "Sth.Props.C08"],
    theorems=["Sth.C01_store_refines_map", "Sth.C01_keys_exact", "Sth.C01_init", "Sth.C01_trailing_bytes_rejected",
              "Sth.C01_d30_input_now_agrees", "Sth.C08_inv", "Sth.C08_lookup", "Sth.C08_absent", "Sth.C08_codec"],
    runs=[dict(engine="seq", quick=400, thorough=30000, extra=["-profile", "c01"], nontrivial=SEQ_NT_C01)],
    rule="traces of Put/Get/Has/GetSize/Remove/Flush/iteration on the real store (multihash and CID primaries, index bits 8..24, "
         "index/primary file limits from 1 byte to the default, both immutability modes, keys clustered in <= 3 buckets with long "
         "common prefixes, values of length 0 (nil and empty) upwards, malformed keys as a separate stream); every output, the "
         "decoded in-memory state after every mutation and the byte-exact directory after every flush are compared with the Lean "
         "model, and every output is checked against the map specification. Non-trivial = distinct trace in which index.Put took "
         "the 'previous is a prefix' branch, a file rolled over, or an overwrite/remove hit a key.",
    assumptions=["keys are well-formed multihashes/CIDs with digests >= 4 bytes, none a proper prefix of another (the property's premise)",
                 "two keys with the same digest are one key to the store (aliases are exercised under C15)"],
)

PROPS["C04"] = dict(
    modules=["Sth.Props.C01", "Sth.Props.C08", "Sth.Props.C04"],
    theorems=list(CORE_RL) + ['Sth.C04_store_refines_map', 'Sth.C04_store_refines_map_budget', 'Sth.C04_countersOK_of_budget', 'Sth.C04_store_refines_map_cid', 'Sth.C04_store_refines_map_partial_igc', 'Sth.C04_indexGC_stutters', 'Sth.C04_reopen_after_igc', 'Sth.C04_primaryGC_stutters', 'Sth.C04_primaryGC_stutters_reachable', 'Sth.C04_gc_cycles_invisible', 'Sth.C04_gc_idempotent_on_contents'],
    runs=[dict(engine="seq", quick=400, thorough=20000, extra=["-profile", "c04"],
               nontrivial=["igc-acted", "pgc-acted", "pgc-relocated", "igc-unlinked", "pgc-unlinked"])],
    requires_ops=["igc", "pgc"],
    rule="C01-style traces on the multihash primary with small files, with index GC cycles (scan-free on/off) and primary GC "
         "cycles (low-use thresholds 0/50/85/100) at arbitrary positions - including before any flush - and poll budgets that stop a "
         "cycle midway; after every GC op every key is read back, and views/disk/sizes are compared with the model. "
         "Non-trivial = distinct trace in which a cycle marked, merged, truncated, unlinked or relocated something. A failure is "
         "attributed to C04 only if it needs a GC op to manifest (the shrunk trace still contains one).",
    assumptions=["sequential histories (concurrent collectors are C06)", "GC cycles are invoked synchronously; the timers that start them are not modelled", "theorem premise GcCountersOK: index and primary file numbers stay below 2^28 along the run (relocation re-appends records, so the uint32 file counters are not bounded by the number of calls; the wrap itself is a documented limit of the store)"],
)


PROPS["C02"] = dict(
    modules=["Sth.Props.C01", "Sth.Props.C08", "Sth.Props.C02", "Sth.Props.C04"],
    theorems=list(CORE_RL) + ["Sth.C02_store_refines_map", "Sth.C02_snapshot_eq_rescan", "Sth.C02_reopen_preserves_observations", "Sth.C02_reopen_twice", "Sth.C02_store_refines_map_igc", "Sth.C02_store_refines_map_gc"],
    runs=[dict(engine="seq", quick=400, thorough=10000, extra=["-profile", "c02"], nontrivial=["reopen", "reopen-rescan", "reopen-badsnap", "paths"])],
    requires_ops=["close", "open", "paths", "rmsnap", "badsnap"],
    rule="C01-style traces with Close/reopen at arbitrary positions: with the snapshot, with the snapshot deleted, with a "
         "truncated snapshot (must fall back to the rescan); after every reopen every key is read back and the in-memory bucket "
         "table and the byte-exact directory are compared with the model. The `paths` op evaluates the property on the "
         "implementation alone: the live bucket table as Close left it, the table rebuilt from the snapshot and the table rebuilt "
         "by rescanning the log (two copies of the directory) must be equal. Non-trivial = distinct trace with at least one reopen. "
         "A failure is attributed to C02 only if it needs a close/reopen to manifest.",
    assumptions=["Close returned without error", "same configuration on reopen (changed bit size is C09)"],
)

PROPS["C15"] = dict(
    modules=["Sth.Props.C01", "Sth.Props.C08", "Sth.Props.C15"],
    theorems=list(CORE_RL) + ['Sth.C15_adapter_refines_contract', 'Sth.C15_init', 'Sth.C15_adapter_calls_store', 'Sth.C15_map_is_contract', 'Sth.C15_put_then_get', 'Sth.C15_has_size_agree_with_get', 'Sth.C15_delete_not_found', 'Sth.C15_duplicate_put_silent', 'Sth.C15_unknown_cid_not_found', 'Sth.C15_alias_same_block', 'Sth.C15_alias_delete', 'Sth.C15_hash_on_read', 'Sth.C15_hash_on_read_enabled', 'Sth.C15_hash_on_read_disabled', 'Sth.C15_malformed_cid', 'Sth.C15_flag_after_toggle', 'Sth.C15_cancelled_ctx', 'Sth.C15_cancelled_ctx_run', 'Sth.C15_cancelled_ctx_contract'],
    runs=[dict(engine="bs", quick=400, thorough=20000, nontrivial=["duplicate-put", "hash-mismatch-rejected", "hash-mismatch-unchecked", "cancelled", "delete", "empty-block", "reopen"])],
    rule="sequences of Put/PutMany/Get/Has/GetSize/DeleteBlock/HashOnRead on the real HashedBlockstore over blocks of 0..4 KiB, "
         "CIDv0/v1, codecs raw/dag-pb/dag-cbor, sha2-256/sha2-512/blake2b-256/identity, aliases sharing a multihash, unknown CIDs, "
         "live and cancelled contexts, blocks whose bytes do not hash to their CID; every output is compared with the Lean adapter "
         "model over the store model and with the blockstore contract (a map from multihash digests to bytes). The real Sum is the "
         "instance of the hash parameter: its verdict is trace input, the model never hashes. Non-trivial = distinct trace with a "
         "duplicate put, a cancelled call, a delete, an empty block or a hash mismatch.",
    assumptions=["digests of distinct blocks are distinct and prefix-free (real hashes; identity digests kept at equal length)"],
)

PROPS["C03"] = dict(
    modules=["Sth.Props.C01", "Sth.Props.C08", "Sth.Props.C03", "Sth.Props.C03Close", "Sth.Props.C03Gc", "Sth.Props.C03GcHist", "Sth.Props.C03Open", "Sth.Props.C03D34"],
    theorems=list(CORE_RL) + ['Sth.C03_flush_crash_recovers', 'Sth.C03_flush_crash_against_map', 'Sth.C03_removed_flushed_stays_absent', 'Sth.C03_flushed_unchanged_survives', 'Sth.C03_lastDurable_spec', 'Sth.C03_image_zero', 'Sth.C03_image_full', 'Sth.C03_recovered_store_keeps_working_partial', 'Sth.C03_close_crash_recovers', 'Sth.C03_close_crash_against_map', 'Sth.C03_close_recovered_store_keeps_working_partial', 'Sth.C03_close_images_recover', 'Sth.C03_snapshot_needs_complete_index', 'Sth.C03_igc_interrupted_crash_recovers', 'Sth.C03_pgc_interrupted_crash_recovers', 'Sth.C03_pgc_crash_vs_old_disk', 'Sth.C03_d11_pgc_dirty_index_pool_loses_durable_value', 'Sth.C03_crash_after_gc_history', 'Sth.C03_crash_after_gc_history_against_map', 'Sth.C03_crash_after_gc_history_keeps_working_partial', 'Sth.C03_crash_after_gc_history_cid', 'Sth.C03_flushed_unchanged_survives_gc', 'Sth.C03_removed_flushed_stays_absent_gc', 'Sth.C03_openSteps_last', 'Sth.C03_open_crash_recovers', 'Sth.C03_open_crash_recovers_restarted', 'Sth.C03_open_crash_recovers_durable', 'Sth.C03_open_crash_recovers_close', 'Sth.C03_open_crash_recovers_gc', 'Sth.C03_open_crash_old_or_new', 'Sth.C03_open_crash_first_open', 'Sth.C03_d34_put_after_primary_flush_loses_durable_value', 'Sth.C03_d34_put_after_index_flush_frees_durable_value'],
    runs=[dict(engine="crash", quick=48, thorough=2000, nontrivial=["torn", "at:index", "at:primary", "at:freelist", "at:store", "flush-image-interior", "open-image-interior"]),
          # crashes inside an Open that upgrades a legacy store or translates the index to another bucket bit size ("inside Close or Open")
          dict(engine="crash", quick=10, thorough=300, extra=["-profile", "c10"], nontrivial=["at:upgrade", "at:remap"]),
          dict(engine="crash", quick=8, thorough=300, extra=["-profile", "c09"], nontrivial=["translate-crash"])],
    shrink_budget=0,   # the workload is the context of the crash oracle (baseline, acknowledged since): it is kept whole
    crash_lines=True,
    rule="sequential workloads on the multihash primary with small files; while every Flush, iteration, Close, reopen and GC cycle "
         "runs, a hook handler copies the store directory at every named point between file-system steps (the running instance is not "
         "disturbed), and every byte-prefix of each appended region (all for regions <= 96 bytes in quick tier, sampled beyond) and "
         "empty/half-written headers are synthesised between consecutive images. Every image is recovered by the real code in a fresh "
         "directory: OpenStore, read every key (must be the value at the last completed flush or one acknowledged since), put+flush+two "
         "primary GC cycles+index GC, read again, close, reopen by rescan, read again. The same image bytes are loaded into the Lean model "
         "and its recovery is compared with the real one; every image captured while an explicit Flush ran must equal the crash image "
         "Sth/Model/CrashImage.lean predicts for that number of file events (creation or appended byte; early creation of the file "
         "rolled over to included), every image captured while Store.Close ran must be one of the Close images of Sth/Model/CrashImageClose.lean, "
         "and every image captured while a plain OpenStore ran must be the directory after one of the steps "
         "Sth/Model/CrashImageOpen.lean lists - which ties the models the crash theorems quantify over to the code. Non-trivial = distinct workload with torn images / images at index, primary, "
         "freelist or store points.",
    assumptions=["process crash: what reached the files stays, in order; power-loss reordering is out of the property's scope",
                 "rename, unlink, truncate and a pwrite of 4 bytes are atomic with respect to a process crash"],
)

PROPS["C05"] = dict(
    modules=["Sth.Props.C01", "Sth.Props.C08", "Sth.Props.C05", "Sth.Props.C05Pools"],
    theorems=list(CORE_RL) + ['Sth.C05_wf_invariant', 'Sth.C05_linearizable', 'Sth.C05_log_faithful', 'Sth.C05_entry_during_call', 'Sth.C05_real_time', 'Sth.C05_owned_keys_no_overlap', 'Sth.C05_linearizable_owned', 'Sth.C05_put_index_publishes', 'Sth.C05_read_your_writes', 'Sth.C05_get_sees_contents', 'Sth.C05_keys_do_not_interfere', 'Sth.C05_frame_step', 'Sth.C05_freelist_exactly_once', 'Sth.C05_no_leak', 'Sth.C05_quiescent_exactly_once', 'Sth.C05_double_free_without_premise', 'Sth.C05_overlap_put_remove_errs', 'Sth.C05_overlap_new_puts_lose_one', 'Sth.C05_overlap_new_puts_not_legal', 'Sth.C05_pools_section_effect', 'Sth.C05_pools_view_invariant', 'Sth.C05_pools_invariant', 'Sth.C05_pools_lockAfterSwap_lost_for_good', 'Sth.C05_pools_lockAfterSwap_temporarily_invisible', 'Sth.C05_pools_lockAfterSwap_rmw_on_stale', 'Sth.C05_pools_skipPools_stale', 'Sth.C05_pools_register', 'Sth.C05_pools_read_your_writes', 'Sth.C05_pools_refines_conc_section', 'Sth.C05_pools_refines_conc_read', 'Sth.C05_pools_refines_conc_run', 'Sth.C05_pools_primary_section_effect', 'Sth.C05_pools_primary_write_once', 'Sth.C05_pools_primary_get', 'Sth.C05_pools_primary_skipPools_eof', 'Sth.C05_pools_primary_lockAfterSwap_wrong_record'],
    runs=[dict(engine="sched", quick=1000, thorough=20000, extra=["-profile", "c05"], nontrivial=["overlapping-calls", "conc-model-agrees", "pools-model-agrees"]),
          dict(engine="res", quick=4, thorough=60, extra=["-profile", "par"], nontrivial=["parallel-lookups"])],
    shrink_budget=0,
    rule="2-3 threads of 1-3 Put/Get/Has/GetSize/Remove calls on 2-4 keys clustered in one or two buckets with shared prefixes, plus a "
         "Flush thread, run on the real store under a cooperative scheduler that parks every thread at named points between the lock "
         "sections of Put/Remove/Get/Index.Get/Flush and releases one at a time following a seeded schedule with runs of 1-6 steps; the "
         "history (invocation/response event indexes and results) is checked: no call returns an error, the history is linearizable "
         "with respect to the map (exhaustive search), and the contents after quiescence equal the final state of some linearization. In 60% of the schedules every lock acquisition "
         "of the index, primary, freelist and store is a scheduling point too (verifhook.Mutex/RWMutex), so that a critical section split "
         "in two is interleaved; half of the programs give every key one writer (no overlap of mutators of one key: known finding D17 "
         "cannot mask interference between keys). Schedules over named points only are replayed on the section-level model "
         "Sth/Model/Conc.lean: every return value (Update errors and lost Puts of D17 included) and the final contents must agree; and on "
         "the pool-swap model Sth/Model/ConcPools.lean (Index.Get = info section + file read, one mutator section per completed Put/Remove, "
         "Index.Flush = swap/append/publish/release at its hook points): every section the code took must be enabled in the model and "
         "every Get/Has/GetSize must return the model's bucket view. "
         "Non-trivial = distinct schedule in which calls of different threads overlap / the section model agreed.",
    assumptions=["interleavings at the granularity of the named points (lock-section boundaries); atomicity of the sections themselves is C16",
                 "blocking is detected with a 30 ms grace period; a thread that arrives later is observed asynchronously"],
)

PROPS["C06"] = dict(
    modules=["Sth.Props.C01", "Sth.Props.C08", "Sth.Props.C05", "Sth.Props.C06W", "Sth.Props.C06H", "Sth.Props.C06I", "Sth.Props.C04", "Sth.Props.C06F"],
    theorems=list(CORE_RL) + ["Sth.C05_linearizable", "Sth.C05_keys_do_not_interfere", "Sth.C05_freelist_exactly_once",
                              "Sth.C04_store_refines_map", "Sth.C06_relocate_split", "Sth.C06_relocation_window_invisible", "Sth.C06_window_reads_after_finish",
                              "Sth.C06_window_exactly_once_moved", "Sth.C06_window_put_survives", "Sth.C06_window_remove_stays_removed",
                              "Sth.C06_window_untouched_key_moved", "Sth.C06_window_unconditional_repoint_resurrects",
                              "Sth.C06_window_weak_compare_resurrects", "Sth.C06_refused_path_records_old_twice", "Sth.C06_window_example_hypotheses",
                              "Sth.C06_handover_split", "Sth.C06_handover_window_invisible", "Sth.C06_handover_flush_succeeds", "Sth.C06_handover_window_example",
                              "Sth.C06_igc_free_verdict_stable", "Sth.C06_igc_late_mark_safe", "Sth.C06_igc_busy_verdict_not_stable",
                              "Sth.C06_igc_flush_never_frees_published", "Sth.C06_igc_flush_positions_live", "Sth.C06_igc_flush_collector_below_flush",
                              "Sth.C06_igc_flush_free_verdict_stable", "Sth.C06_igc_flush_free_file_stable", "Sth.C06_igc_flush_closed_files_fixed",
                              "Sth.C06_igc_flush_full_cycle_covers", "Sth.C06_igc_flush_lock_exclusive", "Sth.C06_igc_flush_lookup_total",
                              "Sth.C06_igc_needs_flushlock", "Sth.C06_igc_free_scan_needs_flushlock", "Sth.C06_igc_flush_example", "Sth.C06_igc_flush_example_free_files",
                              "Sth.C06_igc_flush_replayFrom_never_frees_published", "Sth.C06_igc_flush_replay_never_frees_published", "Sth.C06_igc_flush_replay_is_run",
                              "Sth.C06_igc_flush_example_replay", "Sth.C06_igc_flush_write_order_perm"],
    runs=[dict(engine="sched", quick=500, thorough=20000, extra=["-profile", "c06"], nontrivial=["gc-overlaps-call", "collector-window", "flush-window"]),
          # the schedules in which the collectors run BETWEEN calls (every schedule of the statement includes them): the sequential engine
          # with both collectors over several cycles, byte-compared with the model; its directed corpus holds the multi-cycle histories
          # (merge of a deleted record, resumed cycle) that a single scheduled cycle does not reach
          dict(engine="seq", quick=150, thorough=5000, extra=["-profile", "c04"], nontrivial=["igc-acted", "pgc-acted"])],
    shrink_budget=0,
    rule="as C05 with an extra thread running primary GC (low-use 0/50/85) and index GC cycles over a store prepared with superseded "
         "records in several files; collector sub-steps (busy check, mark, merge, truncate, header, unlink, hand-over, relocation) are "
         "scheduling points. 40% of the schedules are WINDOW schedules: the collector runs alone except for one window at a chosen point "
         "(between the copy of a relocated record and the index update, after the freelist hand-over, between busy check and mark) in "
         "which the other threads run whole calls on same-length values, the owner of the record to be moved writing it inside the "
         "window - histories on which known finding D18's predicate is false. Non-trivial = distinct schedule in which a collector's "
         "mutation lies inside a foreground call's interval, or a window opened.",
    assumptions=["as C05"],
)

PROPS["C12"] = dict(
    modules=["Sth.Props.C12"],
    theorems=["Sth.Rate.C12_registered_is_current", "Sth.Rate.C12_release", "Sth.Rate.C12_signal", "Sth.Rate.C12_enabled",
              "Sth.Rate.C12_lost_wakeup_witness", "Sth.Rate.C12_repaired_on_witness"],
    runs=[dict(engine="sched", quick=200, thorough=20000, extra=["-profile", "c12"], nontrivial=["writer-waited", "rate-model-waited"])],
    shrink_budget=0,
    rule="1-2 writer threads (Put/Remove) on a Started store with burst rate 0 and a tiny measured flush rate (verif setter), so that "
         "flushTick takes the waiting path deterministically, plus an explicit Flush caller playing the periodic flush; scheduling points "
         "inside flushTick (measured, decided, registered, waiting, released) and Flush (stamped, nowork/checked, committed, notified); "
         "the store's own flusher goroutine runs freely and its points are logged. Violation = a writer still parked on the notice "
         "after a flush completed after its wait began. Non-trivial = distinct schedule in which a writer entered the waiting path. Schedules over named points only are replayed on the back-pressure model Sth/Model/Rate.lean (every park of a writer or "
         "flusher is one model step; `inRate > flushRate` and `OutstandingWork() > 0` are taken from the branch the code took): a writer "
         "is released exactly when the model's wait step is enabled, and the writers parked for good at the end are those whose notice "
         "the model has not closed.",
    assumptions=["weak fairness of the flusher goroutine (it runs when signalled)", "flushes succeed"],
)

PROPS["C13"] = dict(
    modules=["Sth.Props.C01", "Sth.Props.C08", "Sth.Props.C13", "Sth.Props.C13G", "Sth.Props.C13H", "Sth.Props.C13F", "Sth.Props.C13B"],
    theorems=list(CORE_RL) + ['Sth.C13_step', 'Sth.C13_current_is_current', 'Sth.C13_current_prefix', 'Sth.C13_step_overwrite', 'Sth.C13_step_remove', 'Sth.C13_step_new_key', 'Sth.C13_step_immutable', 'Sth.C13_step_same_value', 'Sth.C13_step_malformed', 'Sth.C13_step_remove_absent', 'Sth.C13_step_other', 'Sth.C13_recorded_not_current', 'Sth.C13_current_not_recorded', 'Sth.C13_exactly_once', 'Sth.C13_run', 'Sth.C13_file_well_formed', 'Sth.C13_gc_nothing_current_recorded', 'Sth.C13_gc_nothing_current_recorded_cid', 'Sth.C13_gc_consumes', 'Sth.C13_gc_pool_after', 'Sth.C13_gc_covered', 'Sth.C13_gc_exactly_once',
                               'Sth.C13_concurrent_handover_exactly_once', 'Sth.C13_concurrent_handover_global_fifo', 'Sth.C13_concurrent_handover_puts_of_programs',
                               'Sth.C13_concurrent_handover_nodup', 'Sth.C13_concurrent_handover_nothing_lost_at_quiescence', 'Sth.C13_concurrent_handover_order',
                               'Sth.C13_concurrent_handover_file_exists_when_unlocked', 'Sth.C13_concurrent_handover_flush_finds_file',
                               'Sth.C13_concurrent_handover_lock_exclusive', 'Sth.C13_handover_replay_exactly_once', 'Sth.C13_handover_replayFrom_exactly_once',
                               'Sth.C13_handover_without_flushlock_loses', 'Sth.C13_handover_two_collectors_loses', 'Sth.C13_example_concurrent_handover', 'Sth.C13_example_replay',
                               'Sth.C13_barrier_nothing_missed', 'Sth.C13_barrier_nothing_missed_gc_passes', 'Sth.C13_barrier_invariant', 'Sth.C13_barrier_apply_finds_all',
                               'Sth.C13_barrier_lock_exclusive', 'Sth.C13_barrier_gc_passes_ordered', 'Sth.C13_barrier_applied_exactly', 'Sth.C13_barrier_applied_perm',
                               'Sth.C13_barrier_applied_literal_counterexample', 'Sth.C13_barrier_needs_lock_wait', 'Sth.C13_barrier_needs_order',
                               'Sth.C13_barrier_two_collectors_miss', 'Sth.C13_example_barrier', 'Sth.C13_barrier_replayFrom_nothing_missed',
                               'Sth.C13_barrier_replay_nothing_missed', 'Sth.C13_example_barrier_replay'],
    runs=[dict(engine="seq", quick=300, thorough=10000, extra=["-profile", "c13"], nontrivial=["freelist-nonempty", "pgc-relocated"]),
          dict(engine="sched", quick=120, thorough=10000, extra=["-profile", "c13"], nontrivial=["freelist-nonempty", "freelist-model-agrees", "freelist-model-handover"])],
    rule="C04-style traces (small files, overwrites, removals, flushes, reopen, GC cycles with relocation and deadlines); after every "
         "mutating op the `acct` view lists the locations named by live index entries and the recorded locations (freelist pool + file + "
         ".gc) of the REAL store; the driver checks on those views alone that the locations that stopped being current equal the newly "
         "recorded ones (nothing for a new key, a rejected Put, a Remove of an absent key), nothing is recorded twice or while current, "
         "nothing vanishes without a GC cycle, and a complete cycle consumes everything recorded before it; the model's own views are "
         "compared too. Second run (hand-over interleavings): under the cooperative scheduler, writers owning disjoint keys overwrite and "
         "remove while a Flush thread and a primary GC thread (ToGC: flush, close, rename, reopen) run, with scheduling points inside "
         "freelist Flush/ToGC; after quiescence every non-deleted primary record that no index entry names must be on the freelist exactly "
         "once, nothing current and nothing twice. 30% of these schedules are relocation-window schedules (the collector stopped between the "
         "copy of a record and the re-pointing while the owner overwrites or removes the key: known finding D32). "
         "Non-trivial = distinct trace with a non-empty freelist.",
    assumptions=["sequential histories; the hand-over interleavings (freelist Put || Flush || ToGC) are exercised by the sched engine under C06",
                 "crash loss of unflushed freelist entries is a space leak recorded as known finding D19 (not exercised here)"],
)

PROPS["C11"] = dict(
    modules=["Sth.Props.C01", "Sth.Props.C08", "Sth.Props.C11", "Sth.Props.C13H", "Sth.Props.C11D", "Sth.Props.C11E", "Sth.Props.C11F", "Sth.Props.C11G", "Sth.Props.C11P", "Sth.Props.C13B"],
    theorems=list(CORE_RL) + ["Sth.C11_index_file_released", "Sth.C11_index_released_stays", "Sth.C11_index_reap_free_file", "Sth.C11_primary_file_released",
                                "Sth.C11_no_growth_index", "Sth.C11_no_growth_primary", "Sth.C11_relocation_pools_a_copy", "Sth.C11_reap_pools_at_most_two",
                                "Sth.C11_fixed_point_primary", "Sth.C11_low_use_visit", "Sth.C11_primary_file_released_unconditional",
                                "Sth.C11_low_use_drained_bound", "Sth.C11_low_use_round", "Sth.C11_index_cycle_visits_all", "Sth.C11_index_cycle_stale_resume",
                                "Sth.C11_primary_files_short", "Sth.C11_visited_stable", "Sth.C11_primary_file_released_closed",
                                "Sth.C11_cut_handover_pass_file_released",
                                "Sth.C11_primary_files_short_all", "Sth.C11_visited_stable_all", "Sth.C11_primary_file_released_all",
                                "Sth.C13_barrier_nothing_missed", "Sth.C13_barrier_needs_lock_wait", "Sth.C13_barrier_needs_order"],
    runs=[dict(engine="seq", quick=200, thorough=10000, extra=["-profile", "c11"], nontrivial=["c11-dead-primary-files", "c11-unreferenced-index-files"]),
          dict(engine="crash", quick=48, thorough=600, extra=["-profile", "c11d"], nontrivial=["c11-drain-after-recovery"]),
          # collector cycles inside a Flush (the hand-over must stay behind the records it names): only the [C11] reading of the accounting
          dict(engine="sched", quick=80, thorough=4000, extra=["-profile", "c13"], nontrivial=["handover-accounting", "flush-window"])],
    crash_lines=True,
    own_oracle_only_engines=["crash", "sched"],
    rule="fixed-shape histories: fill several small files, remove or overwrite all (or all but 1-2) keys, flush, roll the files out of "
         "current position, then 7 rounds of (primary GC, flush, index GC); from the REAL store's views at the mark the driver computes "
         "which non-current primary files hold no live location and which non-current index files no bucket points into, and checks they "
         "are truncated to zero or unlinked within 2 cycles, that no cycle increases the reported storage (measured at flushed states), "
         "and that the last two rounds leave byte-identical directories (fixed point); all views are compared with the model. Second run: "
         "every crash image taken at a hook point of C03's workloads is recovered by the real code, every key is removed, the files are "
         "left behind and eight cycles of both collectors run (low-use threshold 50); no non-current primary file may then be left "
         "without a record in use or with a free share at or above the threshold - records that no index entry ever named (crash "
         "between the primary's and the index's flush) must be found unreferenced by relocation and freed. "
         "35% of the histories run the collector with its own time limit expiring in every cycle (one file per cycle after the freelist "
         "phase; bound = non-current files at the mark + 2 cycles). "
         "Non-trivial = distinct history with at least one dead primary file or unreferenced index file at the mark / a drained recovery.",
    assumptions=["cycles are invoked synchronously (the timers that start them are not modelled)",
                 "no-growth is measured at flushed states: the repaired collector flushes the primary before applying the freelist"],
)

PROPS["C07"] = dict(
    modules=["Sth.Props.C01", "Sth.Props.C08", "Sth.Props.C07", "Sth.Props.C07G"],
    theorems=list(CORE_RL) + ['Sth.C07_fsck_clean', 'Sth.C07_disk_consistent', 'Sth.C07_recovered_table', 'Sth.C07_recovered_table_reopen', 'Sth.C07_fsck_clean_reopen', 'Sth.C07_recovered_table_after_close', 'Sth.C07_bucket_clauses', 'Sth.C07_bucket_points_at_own_record_list', 'Sth.C07_entries_sorted_prefix_free_distinct', 'Sth.C07_entry_names_live_matching_primary_record', 'Sth.C07_freelist_disjoint_from_live', 'Sth.C07_recorded_never_current', 'Sth.C07_example_clean_everywhere', 'Sth.C07_negative_deleted_record', 'Sth.C07_negative_wrong_bucket', 'Sth.C07_negative_stale_record_list', 'Sth.C07_negative_torn_record_list', 'Sth.C07_negative_live_on_freelist', 'Sth.C07_negative_recovered', 'Sth.C07_fsck_clean_igc', 'Sth.C07_disk_consistent_igc', 'Sth.C07_bucket_clauses_igc', 'Sth.C07_recovered_table_igc', 'Sth.C07_reopen_igc', 'Sth.C07_after_igc', 'Sth.C07_fsck_clean_gc_partial', 'Sth.C07_disk_consistent_gc_partial', 'Sth.C07_pgcFromClean_of_afterFlush', 'Sth.C07_fsck_clean_gc_afterFlush', 'Sth.C07_fsck_clean_gc_cid', 'Sth.C07_primaryGC_keeps_consistency', 'Sth.C07_d11_witness', 'Sth.C07_d11_relocation_witness'],
    runs=[dict(engine="seq", quick=250, thorough=10000, extra=["-profile", "c07"], nontrivial=["fsck-2-buckets"])],
    rule="C04-style traces (flushes, reopen, both GCs, small files); after every flush, GC cycle and reopen the FULL bytes of every file "
         "and the live bucket table of the real store are handed to the Lean fsck (Sth/Model/Fsck.lean), which checks every clause of the "
         "property: bucket -> complete live record list tagged with that bucket in an existing file at or after the header's first file; "
         "entry -> complete live primary record of matching size whose key has the bucket bits and the stored prefix; sorted, prefix-free, "
         "distinct locations; no freelist/.gc entry names a live entry's location. The model's own files are checked too. Crash-recovered "
         "states are covered by C03's engine. Non-trivial = distinct trace whose fsck runs saw at least two non-empty buckets.",
    assumptions=["quiescent states of sequential histories; states after crash recovery are examined under C03",
                 "known finding D11 (shared with C03): after a primary GC cycle that ran with unflushed index updates the on-disk index may name a deleted record until the next flush"],
)

PROPS["C17"] = dict(
    modules=["Sth.Props.C17"],
    theorems=["Sth.Life.C17_close_quiescent", "Sth.Life.C17_returned_recorded", "Sth.Life.C17_no_fs_after_close", "Sth.Life.C17_close_idempotent",
              "Sth.Life.C17_close_waits", "Sth.Life.C17_handshake_before_files", "Sth.Life.C17_no_wait_witness", "Sth.Life.C17_wait_on_witness",
              "Sth.Life.C17_late_start_witness"],
    runs=[dict(engine="res", quick=96, thorough=5000, nontrivial=["closed-while-cycle-parked", "failopen-idxsize", "failopen-prisize", "failopen-bits+size", "failopen-badjson", "failopen-badprijson", "cycles", "reopen-translates", "cycles-translate"])],
    shrink_budget=0,
    rule="real stores with the real background flusher (4 ms) and both collectors (15 ms) over 64/128-byte files: random put/remove "
         "workload, then Close - in half of the runs while a collector cycle or flush is parked by a hook handler at one of 31 named "
         "points (Close must not return until the cycle is released); after Close: store goroutines in the goroutine dump, descriptors "
         "into the directory from /proc/self/fd, directory stamps (name,size,mtime) re-read 70 ms later, second Close, reopen and "
         "read-back of every acknowledged key. Failing opens (index/primary file-size mismatch, bits+size, corrupt index/primary header, "
         "illegal bit size) must leave no goroutine or descriptor and the contents intact; 8-18 open/close repetitions must not "
         "accumulate. Non-trivial = distinct run that closed during a parked cycle, a failed open, or a repetition run.",
    assumptions=["timers, finalizers and runtime-internal goroutines are not examined", "writers parked in flushTick at Close are callers, outside the statement"],
)

PROPS["C09"] = dict(
    modules=["Sth.Props.C01", "Sth.Props.C08", "Sth.Props.C09", "Sth.Props.C09G", "Sth.Props.C09Crash"],
    theorems=list(CORE_RL) + ['Sth.C09_mismatch_refused', 'Sth.C09_same_bits_no_translation', 'Sth.C09_translate_preserves_contents', 'Sth.C09_reads_preserved', 'Sth.C09_unspecified_ifs', 'Sth.C09_strip_total', 'Sth.C09_translate_preserves_contents_igc', 'Sth.C09_reads_preserved_igc', 'Sth.C09_mismatch_refused_igc', 'Sth.C09_same_bits_no_translation_igc', 'Sth.C09_translate_preserves_contents_gc', 'Sth.C09_translate_preserves_contents_gc_cid', 'Sth.C09_translate_keeps_gc_invariant', 'Sth.C09_mismatch_refused_gc', 'Sth.C09_same_bits_no_translation_gc', 'Sth.C09_translate_crash_safe_steps', 'Sth.C09_d13_window', 'Sth.C09_d13_recogniser_covers_window', 'Sth.C09_d13_recogniser_extra_step'],
    runs=[dict(engine="seq", quick=300, thorough=10000, extra=["-profile", "c09"], nontrivial=["rebucketed", "open-err:wrong-index-file-size", "open-err:wrong-primary-file-size"]),
          dict(engine="crash", quick=24, thorough=1000, extra=["-profile", "c09"], nontrivial=["translate-crash"])],
    shrink_budget=0,
    crash_lines=True,
    rule="C01-style traces in which the store is closed and reopened with another index bit size (8..16, rarely up to 24; contents from "
         "the preceding history incl. multi-file indexes and shared prefixes), with a mismatching index or primary file-size limit (must be "
         "refused with the specific error; the original settings then find the contents intact), or both; after every reopen every key is "
         "read back against the map and the re-bucketed index files, header, snapshot and in-memory table are compared byte-for-byte with "
         "the Lean model of translateIndex (the new index's flush order is read back from its files). Second run: the crash engine "
         "captures the directory at every point inside the translation (each file move, header move, removal) and recovers each image "
         "with the new bit size: an open that succeeds must not miss keys. Non-trivial = distinct trace with a re-bucketing / a refused "
         "open / crash images inside the translation.",
    assumptions=["IndexFileSize 0 means 'default' to the new index (the re-bucketed index then uses the default limit): modelled as the code does it"],
)

PROPS["C10"] = dict(
    modules=["Sth.Props.C10", "Sth.Props.C10b", "Sth.Props.C10c", "Sth.Props.C10d", "Sth.Props.C10e", "Sth.Props.C01", "Sth.Props.C08"],
    theorems=["Sth.C10_chunk_concat", "Sth.C10_chunk_shape", "Sth.C10_remap_correct", "Sth.C10_remap_reject", "Sth.C10_remap_total",
              "Sth.C10_upgrade_contents", "Sth.C10_upgrade_reads", "Sth.C10_upgrade_records_whole", "Sth.C10_upgrade_fsck",
              "Sth.C10_upgrade_resume_partial", "Sth.C10_completed_opens_plainly", "Sth.C10_D14_marker_window", "Sth.C10_D14_pool_lost",
              "Sth.C10_upgrade_contents_bad", "Sth.C10_upgrade_bad_single", "Sth.C10_bad_entries_absent",
              "Sth.C10_torn_primary", "Sth.C10_torn_prefix", "Sth.C10_torn_record_offset_bad", "Sth.C10_torn_index_refused", "Sth.C10_torn_index_repaired",
              "Sth.C10_D31_regression", "Sth.C10_upgrade_translate", "Sth.C10_upgrade_translate_bad"] + list(CORE_RL),
    runs=[dict(engine="seq", quick=250, thorough=5000, extra=["-profile", "c10"], nontrivial=["multi-chunk", "legacy-freelist", "legacy-bad-offset", "legacy-torn-tail", "upgrade-bytes-agree"]),
          dict(engine="crash", quick=16, thorough=500, extra=["-profile", "c10"], nontrivial=["at:upgrade", "at:remap"])],
    shrink_budget=0,
    crash_lines=True,
    rule="the harness writes stores in the legacy formats (version-2 single-file index with stale generations, unversioned single-file "
         "primary, pending freelist entries with linear offsets, records long gone from the index, entries with offsets beyond the primary) "
         "from generated maps (15% with a torn last record in the legacy primary), and opens them with chunk limits {1,16,100,1024,default} for index and primary; after the upgrading open the "
         "chunk file sizes and every key's remapped location are compared with the Lean pure functions (chunk, remapOffset), the full "
         "directory bytes are checked by the Lean fsck, every key is read back against the map, and the model is synchronised from the "
         "directory so that the ordinary history that follows (puts, removes, flushes, GC, reopen) is compared byte-for-byte again; the legacy "
         "directory as written is handed to the byte-level Lean model of the upgrade (Sth/Model/UpgradeBytes.lean: freelist application, "
         "re-chunking with the scratch-buffer bytes of freed records, header writes, offset remapping in place, removal pool of unmappable "
         "entries flushed inside Open) whose output must equal the real upgraded directory file for file and byte for byte (for some "
         "flush order of the removal pool), and the Lean mirror of the legacy writer must reproduce the legacy bytes. Second "
         "run: the crash engine captures the directory at every upgrade/remap point (plus torn chunk files) and reopens each image: the "
         "conversion must complete with the same contents. Non-trivial = distinct store split into several chunks / with freelist / with "
         "unmappable entries; crash images at upgrade or remap points.",
    assumptions=["legacy keys are multihashes with one-byte code and length (what the old versions stored)",
                 "entries that were already corrupt in the legacy input are the input's corruption: an upgrade that needs no remapping preserves them (they are dropped lazily on access)"],
)


def race_probe(work, tier, seed):
    """-race build of the harness, free-running stress; every distinct race report is a concrete failing execution."""
    import glob, os, re
    from . import common as C
    ok, out = C.go_build_race()
    if not ok:
        return dict(breaks=[("race-build", "go build -race of the harness failed:\n" + out[-1500:])], evaluations=0)
    logdir = os.path.join(work, "race")
    os.makedirs(logdir, exist_ok=True)
    n = 2 if tier == "quick" else 6
    env = C.goenv()
    env["GORACE"] = "log_path=%s/r halt_on_error=0" % logdir
    import subprocess
    procs = []
    for i in range(n):
        procs.append(subprocess.Popen([C.HARNESS + ".race", "gen", "-engine", "stress", "-seed", str(seed * 100 + i), "-n", "1", "-tier", tier],
                                      env=env, stdout=subprocess.PIPE, stderr=subprocess.DEVNULL, text=True))
    outs, hung = [], 0
    for p in procs:
        try:
            outs.append(p.communicate(timeout=600)[0])
        except subprocess.TimeoutExpired:
            # never leave a stress process behind; a run that does not finish is reported, not ignored
            p.kill()
            try:
                outs.append(p.communicate(timeout=30)[0] or "")
            except subprocess.TimeoutExpired:
                outs.append("")
            hung += 1
    reports = []
    for f in sorted(glob.glob(os.path.join(logdir, "r.*"))):
        txt = open(f, errors="replace").read()
        reports += [r for r in txt.split("==================") if "DATA RACE" in r]
    def sig(r):
        fr = re.findall(r"^  (github.com/ipld/go-storethehash[^\s(]*)", r, re.M)
        return " <-> ".join(fr[:1] + [x for x in fr[1:] if x != fr[0]][:1]) if fr else r[:80]
    by = {}
    for r in reports:
        by.setdefault(sig(r), r)
    viol = []
    from .runner import new_replay_path
    if hung:
        return dict(breaks=[("race-stress", "%d of %d stress runs did not finish within 600 s (deadlock or livelock under the race detector)" % (hung, n))],
                    evaluations=n, summary={"race_stress_runs": n, "hung": hung})
    for k, r in list(by.items())[:4]:
        path = new_replay_path("C16", "violation")
        with open(path, "w") as f:
            f.write("# property=C16 engine=stress\n# Go race detector report (harness built with -race -tags verif against /repo; VERIF_SEED=%d)\n" % seed)
            f.write("# replay: cd /verif && VERIF_SEED=%d ./check C16   (the stress run is free-running: the report recurs within seconds)\n" % seed)
            f.write(r.strip() + "\n")
        viol.append((path, "data race: " + k, True))
    return dict(violations=viol, evaluations=n, nontrivial=[("stress", i) for i in range(n)],
                summary={"race_stress_runs": n, "race_reports": len(reports), "distinct": list(by.keys())[:8], "stress_results": [o.strip().split("\n")[1] if len(o.strip().split("\n")) > 1 else o for o in outs]},
                samples=[{"engine": "stress", "trace": [o.strip().split("\n")[1] if len(o.strip().split("\n")) > 1 else o for o in outs][:2]}])


PROPS["C16"] = dict(
    modules=["Sth.Props.C16"],
    theorems=["Sth.Race.C16_lockset_sound", "Sth.Race.C16_lockset_sound_modes", "Sth.Race.C16_discipline_race_free", "Sth.Race.C16_discipline_phased",
              "Sth.Race.C16_discipline_locksets", "Sth.Race.C16_pairwise_race_free", "Sth.Race.C16_hb_strict_order", "Sth.Race.C16_checkers",
              "Sth.Race.C16_unguarded_race_witness", "Sth.Race.C16_write_under_rlock_witness"],
    facts=dict(modules=["Sth.Obligations.C16"], theorems=["Sth.Obligations.C16_discipline", "Sth.Obligations.C16_table_nontrivial"]),
    runs=[],
    probes=[race_probe],
    rule="(1) the lockset theorem over an abstract lock-trace semantics; (2) the access table regenerated from /repo's source on every run "
         "(go/ast extractor: every shared struct field read or written in code reachable from the public API of the property's list, the "
         "flusher goroutine and both collector goroutines, with the locks held) satisfies the theorem's hypothesis for every conflicting "
         "pair (kernel-evaluated obligation); (3) a free-running -race stress of the same composition (3 writers on disjoint keys, 2 "
         "readers, Flush caller, size queries, cache resizing, flusher, both collectors, 256-byte files) as the search for a concrete "
         "report and as a cross-check of the extractor. Non-trivial = each stress run (seconds of real concurrency under the race detector).",
    assumptions=["the extractor's precision limits (no alias analysis; bufio/os.File internals attributed to the owning field; interface calls resolved by name)",
                 "the abstract lock-trace semantics, not the Go memory model itself"],
)

# regenerated call-order / shape facts as obligations of the properties that rely on them
PROPS["C03"]["facts"] = dict(modules=["Sth.Obligations.FactsC03"], theorems=["Sth.Obligations.C03_commit_order", "Sth.Obligations.C03_close_order"])
PROPS["C05"]["facts"] = dict(modules=["Sth.Obligations.FactsC05", "Sth.Obligations.FactsC05b"], theorems=["Sth.Obligations.C05_mutators_atomic", "Sth.Obligations.C05_data_path_guarded"])
PROPS["C13"]["facts"] = dict(modules=["Sth.Obligations.FactsC05", "Sth.Obligations.FactsC13"], theorems=["Sth.Obligations.C05_mutators_atomic", "Sth.Obligations.C13_flush_is_barrier"])
PROPS["C11"]["facts"] = dict(modules=["Sth.Obligations.FactsC13"], theorems=["Sth.Obligations.C13_flush_is_barrier"])
PROPS["C06"]["facts"] = dict(modules=["Sth.Obligations.FactsC05", "Sth.Obligations.FactsC05b"], theorems=["Sth.Obligations.C05_mutators_atomic", "Sth.Obligations.C05_data_path_guarded"])
PROPS["C12"]["facts"] = dict(modules=["Sth.Obligations.FactsC12"], theorems=["Sth.Obligations.C12_flush_paths", "Sth.Obligations.C12_register_atomic"])
PROPS["C14"]["facts"] = dict(modules=["Sth.Obligations.FactsC14"], theorems=["Sth.Obligations.C14_methods_atomic", "Sth.Obligations.C14_methods_single_section"])
PROPS["C17"]["facts"] = dict(modules=["Sth.Obligations.FactsC17"], theorems=["Sth.Obligations.C17_done_channels", "Sth.Obligations.C17_handshake_locals_not_shadowed"])
