"""The check flow shared by all properties."""
import glob
import json
import os
import re
import time

from . import common as C

REPLAYS = os.path.join(C.VERIF, "replays")

TRUSTED_BASE = [
    "Lean 4.33 kernel (lake build re-checks every theorem on each run; leanchecker in thorough tier)",
    "axioms allowed: propext, Classical.choice, Quot.sound (audited per theorem with #print axioms)",
    "hand-written Lean model tied to /repo by the correspondence run (Go harness + Lean driver) and by regenerated source facts",
    "Go harness, generators and canonicalisation in /verif/go; Lean compiler/runtime for the driver executable",
]


def new_replay_path(pid, tag):
    os.makedirs(REPLAYS, exist_ok=True)
    n = 0
    while True:
        p = os.path.join(REPLAYS, "%s-%s-%d.txt" % (pid, tag, n))
        if not os.path.exists(p):
            return p
        n += 1


def write_replay(path, pid, engine, what, lines, extra=""):
    with open(path, "w") as f:
        f.write("# property=%s engine=%s\n" % (pid, engine or "-"))
        f.write("# %s\n" % what.replace("\n", "\n# "))
        if extra:
            f.write("# %s\n" % extra.replace("\n", "\n# "))
        f.write("# replay: cd /verif && ./check %s --replay %s\n" % (pid, path))
        if engine:
            f.write("T 0 engine=%s\n" % engine)
            for l in lines:
                f.write(l + "\n")
            f.write("E 0\n")


def lean_errors(log):
    errs = [l for l in log.split("\n") if "error" in l.lower()]
    return "\n".join(errs[:20]) or log[-1500:]


def match_finding(findings, pid, msg):
    for f in findings:
        if f["prop"] == pid and f["rx"].search(msg):
            return f
    return None


def run_check(pid, cfg, tier, seed, work, t0):
    breaks = []          # (kind, description) — proof obligations / correspondence that no longer check
    violations = []      # (replay path, text, has_input)
    known_lines = []
    findings = C.load_findings()
    coverage = {"samples": [], "trusted_base": list(TRUSTED_BASE) + cfg.get("trusted_extra", [])}
    assumptions = list(cfg.get("assumptions", []))

    # ---- 1. proofs
    theorems = cfg.get("theorems", [])
    modules = cfg.get("modules", [])
    # only what this property needs: a broken obligation or theorem of another property must not raise an alarm here
    ok, log = C.lean_build(tuple(modules) + ("driver",))
    obligations = len(theorems)
    discharged = 0
    audit = {}
    if not ok:
        breaks.append(("lean-build", "lake build failed:\n" + lean_errors(log)))
    else:
        audit = C.lean_audit(modules, theorems) if theorems else {}
        for t, (good, ax) in audit.items():
            if good:
                discharged += 1
            else:
                breaks.append(("axiom-audit", "theorem %s: axioms %s" % (t, ax)))
    if ok and tier == "thorough" and modules:
        # independent re-check of the compiled theorems (and everything they import) by the toolchain's external checker
        with C.Lock("lake"):
            rc, out = C.run(["lake", "env", "leanchecker"] + list(modules), cwd=C.LEAN, timeout=3600)
        coverage["leanchecker"] = "ok" if rc == 0 else "rejected"
        if rc != 0:
            breaks.append(("leanchecker", "leanchecker rejects the compiled modules %s: %s" % (modules, out[-600:])))
    forb = C.lean_grep_forbidden()
    if forb:
        breaks.append(("forbidden-construct", "\n".join(forb[:10])))
    coverage["theorems"] = {t: audit.get(t, (False, ["<not checked>"]))[1] for t in theorems}

    # ---- 2. regenerated facts and obligations
    facts = cfg.get("facts")
    if facts:
        from . import facts as F
        fres = F.check_facts(facts, work)
        obligations += fres["obligations"]
        discharged += fres["discharged"]
        coverage["facts"] = fres["summary"]
        for b in fres["breaks"]:
            breaks.append(("fact-obligation", b))

    # ---- 3. harness
    ok, log = C.go_build()
    engines_ok = ok
    if not ok:
        breaks.append(("harness-build", "go build -tags verif of the harness against /repo failed:\n" + log[-3000:]))

    total = C.TraceResult()
    prop_fail = []       # (engine, tracefile(s), trace id, line, msg)
    corr_fail = []
    evals = 0
    nontrivial = set()
    flag_hist = {}
    per_engine = {}
    if engines_ok and ok:
        run_dirs = []
        corpus_done = []
        for r in cfg.get("runs", []):
            engine = r["engine"]
            n = r[tier] if tier in r else r["quick"]
            # corpus first (once per engine: a property may have several runs of one engine)
            corpus_files = [] if engine in [os.path.basename(d0) for d0 in corpus_done] else sorted(glob.glob(os.path.join(C.VERIF, "corpus", engine, "*.ops")))
            corpus_done.append(engine)
            for cf in corpus_files:
                restrict = [l for l in open(cf) if l.startswith("# props=")]
                if restrict and pid not in restrict[0].strip()[len("# props="):].split(","):
                    continue
                lines = [l.rstrip("\n") for l in open(cf) if l.strip() and not l.startswith(("#", "T ", "E"))]
                res, text = C.replay_ops(engine, lines, work, "corpus")
                evals += 1
                for (tid, ln, m) in res.prop:
                    prop_fail.append((engine, None, os.path.basename(cf), ln, m, text.split("\n")))
                for (tid, ln, m) in res.corr:
                    corr_fail.append((engine, None, os.path.basename(cf), ln, m, text.split("\n")))
                for e in res.errors:
                    breaks.append(("engine-error", e))
            # one directory per run: two runs of one engine (C03 has three crash runs) must not overwrite each other's trace files,
            # from which the replays are cut
            rundir = os.path.join(work, "run%d" % len(run_dirs))
            run_dirs.append(rundir)
            os.makedirs(rundir, exist_ok=True)
            res, files = C.gen_and_drive(engine, n, seed, tier, rundir, extra=r.get("extra"))
            ex = r.get("extra") or []
            pe_key = engine + (":" + ex[ex.index("-profile") + 1] if "-profile" in ex else "")
            per_engine[pe_key] = dict(traces=res.traces, ops=res.ops)
            evals += res.traces
            for e in res.errors:
                breaks.append(("engine-error", "%s: %s" % (engine, e)))
            for (tid, ln, m) in res.prop:
                prop_fail.append((engine, files, tid, ln, m, None))
            for (tid, ln, m) in res.corr:
                corr_fail.append((engine, files, tid, ln, m, None))
            nt_flags = set(r.get("nontrivial", []))
            for tid, d in res.end.items():
                fl = set(d.get("flags", "").split(",")) - {""}
                for f in fl:
                    flag_hist[f] = flag_hist.get(f, 0) + 1
                if not nt_flags or (fl & nt_flags):
                    nontrivial.add((engine, d.get("hash")))
            for k, v in res.stats.items():
                flag_hist[k] = flag_hist.get(k, 0) + v
            # samples: first trace of first shard
            if files and len(coverage["samples"]) < 3:
                hdr, lines = C.read_trace(files[0], os.path.basename(files[0]) and open(files[0]).readline().split()[1] if os.path.getsize(files[0]) else "0")
                if lines:
                    coverage["samples"].append({"engine": engine, "trace": lines[:25], "truncated": len(lines) > 25})
        # extra python-level probes
        for probe in cfg.get("probes", []):
            pres = probe(work, tier, seed)
            evals += pres.get("evaluations", 0)
            for b in pres.get("breaks", []):
                breaks.append(b)
            for v in pres.get("violations", []):
                violations.append(v)
            for k in pres.get("known", []):
                known_lines.append(k)
            coverage.setdefault("probes", []).append(pres.get("summary", {}))
            for s in pres.get("samples", []):
                if len(coverage["samples"]) < 6:
                    coverage["samples"].append(s)
            nontrivial |= set(pres.get("nontrivial", []))

    # ---- 4. evaluate property failures (these are concrete failing inputs on the real code)
    def trace_lines(engine, files, tid, pre):
        if pre is not None:
            return [l for l in pre if l and not l.startswith(("T ", "E", "#"))]
        for f in files:
            hdr, lines = C.read_trace(f, tid)
            if hdr is not None:
                return lines
        return []

    seen_classes = {}
    other = []
    for (engine, files, tid, ln, m, pre) in prop_fail:
        # an oracle that belongs to one property only says so in its message
        own = re.search(r"\[(C\d\d)\] ", m)
        if own and own.group(1) != pid:
            other.append("%s (oracle of %s)" % (m[:160], own.group(1)))
            continue
        if not own and engine in cfg.get("own_oracle_only_engines", []):
            # this engine runs here for the property's own oracle; its general oracles belong to the properties that own the engine
            other.append("%s (general oracle of the %s engine: belongs to another property)" % (m[:160], engine))
            continue
        cls = (engine, C.msg_class(m))
        seen_classes.setdefault(cls, []).append((files, tid, ln, m, pre))
    reported = 0
    for (engine, cls), items in seen_classes.items():
        files, tid, ln, m, pre = items[0]
        f = match_finding(findings, pid, m)
        lines = trace_lines(engine, files, tid, pre)
        lines = lines[:ln]  # cut after the failing line
        if f is not None:
            known_lines.append("KNOWN-FINDING: property=%s %s [%s] (%d traces)" % (pid, f["text"], f["key"], len(items)))
            continue
        if reported >= 4:
            continue
        if cfg.get("crash_lines"):
            # keep the workload and only the failing image (as a direct `crashimg` op)
            fail = lines[-1] if lines else ""
            body = [l for l in lines[:-1] if not l.startswith("crashnext")]
            if fail.startswith("crashnext -> point="):
                res = fail.split(" -> ", 1)[1]
                kv = dict(t.split("=", 1) for t in res.split(" ") if "=" in t)
                body.append("crashimg point=%s tear=%s img=%s ->" % (kv.get("point", "?"), kv.get("tear", "none"), kv.get("img", "")))
                lines = body
        req = cfg.get("requires_ops")
        if req:
            # attribution: does the failure need one of this property's operations to manifest?
            without = [l for l in lines if l.split(" ")[0] not in req]
            r0, _ = C.replay_ops(engine, without, work, "attrib")
            if any(C.msg_class(mm) == cls for (_, _, mm) in r0.prop):
                other.append("%s (fails without any %s op: belongs to another property)" % (m[:160], "/".join(req)))
                continue
        # crash / sched / res workloads are the context of their oracles: kept whole
        budget = 0 if engine in ("crash", "sched", "res") else cfg.get("shrink_budget", 80)
        shrunk, okshrink = C.shrink(engine, lines, work, cls, budget=budget)
        r, text = C.replay_ops(engine, shrunk, work, "final")
        msgs = ["%s" % mm for (_, _, mm) in r.prop] or [m]
        # a shrunk trace may reveal that the failure is a known finding after all
        f2 = None
        for mm in msgs:
            f2 = f2 or match_finding(findings, pid, mm)
        if f2 is not None and all(match_finding(findings, pid, mm) for mm in msgs):
            known_lines.append("KNOWN-FINDING: property=%s %s [%s] (%d traces)" % (pid, f2["text"], f2["key"], len(items)))
            continue
        path = new_replay_path(pid, "violation")
        body = [l for l in text.split("\n") if l and not l.startswith(("T ", "E", "#"))] or shrunk
        write_replay(path, pid, engine, "property oracle fails on the real code: " + "; ".join(msgs[:4]),
                     body, "first seen in trace %s line %d (%d traces of this class); shrunk=%s" % (tid, ln, len(items), okshrink))
        violations.append((path, msgs[0], True))
        reported += 1

    # ---- 5. correspondence-only failures and proof breaks: property no longer shown to hold
    prop_traces = set((e, t) for (e, _, t, _, _, _) in prop_fail)
    corr_only = [c for c in corr_fail if (c[0], c[2]) not in prop_traces]
    if corr_only:
        engine, files, tid, ln, m, pre = corr_only[0]
        lines = trace_lines(engine, files, tid, pre)[:ln]
        breaks.append(("correspondence", "model and implementation disagree (%d lines in %d traces); first: engine=%s trace=%s line=%d %s"
                       % (len(corr_only), len(set((c[0], c[2]) for c in corr_only)), engine, tid, ln, m), engine, lines))
    if breaks and not violations:
        # the oracle search (all PROP checks above over corpus + generated traces) found no failing input
        path = new_replay_path(pid, "unproved")
        first = breaks[0]
        engine = first[2] if len(first) > 2 else None
        lines = first[3] if len(first) > 3 else []
        what = "no longer checks: " + "; ".join("%s: %s" % (b[0], b[1].split("\n")[0]) for b in breaks[:6])
        write_replay(path, pid, engine, what, lines, "\n".join(b[1] for b in breaks)[:6000])
        violations.append((path, what, False))

    # ---- 6. evidence + output
    # one line per listed finding
    agg = {}
    for k in known_lines:
        m = re.match(r"(KNOWN-FINDING: property=\S+ .*?)( \((\d+) traces\))?$", k)
        base = m.group(1) if m else k
        n = int(m.group(3)) if m and m.group(3) else 1
        agg[base] = agg.get(base, 0) + n
    known_lines = ["%s (%d failing cases this run)" % (b, n) for b, n in agg.items()]
    for k in known_lines:
        print(k)
    coverage.update({
        "obligations": max(obligations, 1),
        "discharged": discharged,
        "checker_cmd": "cd /verif/lean && lake build && lake env lean <audit: #print axioms %s>" % " ".join(theorems[:3] + (["…"] if len(theorems) > 3 else [])),
        "evaluations": evals,
        "distinct_nontrivial": len(nontrivial),
        "rule": cfg.get("rule", ""),
        "traces_validated_against_impl": evals,
        "ops_executed": sum(v["ops"] for v in per_engine.values()) if per_engine else 0,
        "per_engine": per_engine,
        "histogram": flag_hist,
        "correspondence_mismatches": len(corr_fail),
        "property_oracle_failures": len(prop_fail),
        "known_findings_reconfirmed": known_lines,
        "failures_attributed_to_other_properties": other,
        "breaks": [b[0] + ": " + b[1][:300] for b in breaks],
        "exhaustive": False,
    })
    C.write_evidence(pid, tier, seed, coverage, assumptions, time.time() - t0, len(violations))
    for (path, text, has_input) in violations:
        tail = "" if has_input else " no-failing-input-found"
        print("VIOLATION property=%s replay=%s%s" % (pid, path, tail))
    if violations:
        for (path, text, _) in violations:
            print("  " + text[:400])
        return 1
    print("OK property=%s tier=%s seed=%d theorems=%d/%d traces=%d nontrivial=%d wall=%.1fs" %
          (pid, tier, seed, discharged, obligations, evals, len(nontrivial), time.time() - t0))
    return 0


def run_replay(pid, cfg, path, work):
    ok, log = C.go_build()
    if not ok:
        print("harness build failed:\n" + log[-2000:])
        return 1
    okl, log = C.lean_build(("driver",))
    engine = None
    lines = []
    for l in open(path):
        l = l.rstrip("\n")
        m = re.match(r"# property=\S+ engine=(\S+)", l)
        if m:
            engine = m.group(1)
        if l.startswith("T "):
            m = re.search(r"engine=(\S+)", l)
            if m:
                engine = m.group(1)
        if not l or l.startswith(("#", "T ", "E")):
            continue
        lines.append(l)
    if not engine or engine == "-" or not lines:
        print(open(path).read())
        print("(no executable trace in this replay file: it names the proof obligation / correspondence that no longer checks)")
        return 1
    r, text = C.replay_ops(engine, lines, work, "replay")
    print(text)
    for (t, ln, m) in r.corr:
        print("CORR line=%d %s" % (ln, m))
    for (t, ln, m) in r.prop:
        print("PROP line=%d %s" % (ln, m))
    for e in r.errors:
        print("ERROR", e)
    # oracles that belong to another property, and failures that a listed finding's recogniser matches, are not violations here
    findings = C.load_findings()
    mine, known = [], []
    for (t, ln, m) in r.prop:
        own = re.search(r"\[(C\d\d)\] ", m)
        if own and own.group(1) != pid:
            continue
        f = match_finding(findings, pid, m)
        (known if f is not None else mine).append((m, f))
    for key in sorted(set(f["key"] for (_, f) in known)):
        f = [x for (_, x) in known if x["key"] == key][0]
        print("KNOWN-FINDING: property=%s %s [%s]" % (pid, f["text"], f["key"]))
    if mine or r.errors:
        print("VIOLATION property=%s replay=%s" % (pid, path))
        return 1
    if r.corr and not known:
        print("VIOLATION property=%s replay=%s no-failing-input-found" % (pid, path))
        return 1
    print("no unlisted property failure on replay")
    return 0
