#!/bin/bash
# usage: seedtest.sh <worktree> <seed-id> <check ids...>
# Confirms a seeded change (build, suite, demo fails with / passes without), stores it under /verif/seeded/<seed-id>/,
# applies it to /repo, runs the given checks, and undoes it.
set -u
WT=$1; SID=$2; shift 2
export GOFLAGS=-mod=mod GOPROXY=off
mkdir -p /verif/seeded/$SID
cp $WT/seeded_patch.diff /verif/seeded/$SID/patch.diff
DEMO=$(cd $WT && git status --short | grep seeded_demo_test.go | awk '{print $2}' | head -1)
cp $WT/$DEMO /verif/seeded/$SID/ 2>/dev/null
cp $WT/seeded_meta.txt /verif/seeded/$SID/agent_meta.txt 2>/dev/null
PKG=./$(dirname $DEMO)
echo "demo: $DEMO pkg: $PKG"
(cd $WT && go build ./... ) && echo "BUILD ok" || echo "BUILD FAIL"
(cd $WT && go test -count=1 -run 'TestSeededDemo$' $PKG 2>&1 | tail -3 | grep -q "^FAIL\|--- FAIL" ) && echo "DEMO fails with change: yes" || echo "DEMO fails with change: NO"
(cd $WT && git stash push -q -- $(git diff --name-only) && go test -count=1 -run 'TestSeededDemo$' $PKG 2>&1 | tail -1; git stash pop -q)
(cd $WT && mv $DEMO /tmp/_demo_aside.go && go test -count=1 ./... 2>&1 | grep -v "no test files" | grep -v "^ok" | head -5; mv /tmp/_demo_aside.go $DEMO; echo "SUITE done (lines above = failures)")
cd /verif
git -C /repo apply /verif/seeded/$SID/patch.diff || { echo "APPLY FAILED"; exit 1; }
for c in "$@"; do
  rm -rf /verif/replays
  OUT=$(./check $c 2>&1 | grep -E "^VIOLATION|^OK|^KNOWN" | cut -c1-200)
  echo "[$c] $OUT" | head -6
  R=$(ls /verif/replays/* 2>/dev/null | head -1)
  if [ -n "$R" ]; then grep -m3 "^# property oracle\|^# no longer" $R | cut -c1-300; fi
done
git -C /repo checkout -- .
git -C /repo status --short | head -3
# rebuild the harness from the clean tree (the checks above left a build of the changed tree behind)
(cd /verif/go && GOFLAGS=-mod=mod GOPROXY=off go build -tags verif -o /verif/build/harness . )
# restore the evidence files and the generated facts of the unchanged tree (the runs above rewrote them from the changed tree)
git -C /verif checkout -- evidence lean/Sth/Generated/Facts.lean 2>/dev/null
