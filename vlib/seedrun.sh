#!/bin/bash
# usage: seedrun.sh <seed-id> <check ids...>   applies /verif/seeded/<seed-id>/patch.diff to /repo, runs the checks, undoes it
set -u
SID=$1; shift
cd /verif
git -C /repo apply /verif/seeded/$SID/patch.diff || { echo "APPLY FAILED"; exit 1; }
for c in "$@"; do
  rm -rf /verif/replays
  OUT=$(./check $c 2>&1 | grep -E "^VIOLATION|^OK" | cut -c1-160)
  echo "[$SID/$c] $OUT" | head -4
  for R in $(ls /verif/replays/* 2>/dev/null | head -2); do grep -m2 "^# property oracle\|^# no longer" $R | cut -c1-260; done
done
git -C /repo checkout -- .
git -C /repo status --short | head -3
# rebuild the harness from the clean tree (the checks above left a build of the changed tree behind)
(cd /verif/go && GOFLAGS=-mod=mod GOPROXY=off go build -tags verif -o /verif/build/harness . )
# restore the evidence files and the generated facts of the unchanged tree (the runs above rewrote them from the changed tree)
git -C /verif checkout -- evidence lean/Sth/Generated/Facts.lean 2>/dev/null
