"""Shared machinery for /verif/check: builds, audit, running engines, shrinking, evidence."""
import fcntl
import json
import os
import re
import shutil
import subprocess
import sys
import tempfile
import time
from concurrent.futures import ThreadPoolExecutor

VERIF = os.path.dirname(os.path.dirname(os.path.abspath(__file__)))
REPO = os.environ.get("VERIF_REPO", "/repo")
LEAN = os.path.join(VERIF, "lean")
GO = os.path.join(VERIF, "go")
BUILD = os.path.join(VERIF, "build")
HARNESS = os.path.join(BUILD, "harness")
DRIVER = os.path.join(LEAN, ".lake", "build", "bin", "driver")
EVIDENCE = os.path.join(VERIF, "evidence")
FINDINGS_FILE = os.path.join(VERIF, "KNOWN_FINDINGS.txt")
ALLOWED_AXIOMS = {"propext", "Classical.choice", "Quot.sound"}
NCPU = os.cpu_count() or 4


def goenv():
    env = dict(os.environ)
    env["GOFLAGS"] = "-mod=mod"
    env["GOPROXY"] = "off"
    env["GOTOOLCHAIN"] = "auto"
    env.pop("GOSUMDB", None)
    env["GOMEMLIMIT"] = "6GiB"
    return env


class Lock:
    def __init__(self, name):
        os.makedirs(BUILD, exist_ok=True)
        self.path = os.path.join(BUILD, name + ".lock")

    def __enter__(self):
        self.f = open(self.path, "w")
        fcntl.flock(self.f, fcntl.LOCK_EX)
        return self

    def __exit__(self, *a):
        fcntl.flock(self.f, fcntl.LOCK_UN)
        self.f.close()


def run(cmd, cwd=None, env=None, timeout=None, stdin=None):
    try:
        p = subprocess.run(cmd, cwd=cwd, env=env, timeout=timeout, stdin=stdin,
                           stdout=subprocess.PIPE, stderr=subprocess.STDOUT, text=True)
    except subprocess.TimeoutExpired as e:
        # subprocess.run has killed the child; a command that does not finish is reported like one that failed
        out = e.stdout if isinstance(e.stdout, str) else (e.stdout or b"").decode(errors="replace")
        return 124, (out or "") + "\n<timed out after %s s>" % timeout
    return p.returncode, p.stdout


# --------------------------------------------------------------------------- Lean

def lean_build(targets=("Sth", "driver")):
    """lake build; returns (ok, log)."""
    with Lock("lake"):
        rc, out = run(["lake", "build"] + list(targets), cwd=LEAN, timeout=3000)
    return rc == 0, out


FORBIDDEN = re.compile(r"\b(sorry|admit|native_decide|bv_decide|implemented_by|unsafe)\b|^\s*axiom\s|maxHeartbeats\s+0")


def strip_lean_comments(src):
    # remove block comments (nested not handled beyond one level, fine for our files) and line comments
    out = []
    depth = 0
    i = 0
    while i < len(src):
        if src.startswith("/-", i):
            depth += 1
            i += 2
        elif src.startswith("-/", i) and depth > 0:
            depth -= 1
            i += 2
        elif depth > 0:
            if src[i] == "\n":
                out.append("\n")
            i += 1
        elif src.startswith("--", i):
            while i < len(src) and src[i] != "\n":
                i += 1
        else:
            out.append(src[i])
            i += 1
    return "".join(out)


def lean_grep_forbidden():
    hits = []
    for root, _, files in os.walk(os.path.join(LEAN, "Sth")):
        for fn in files:
            if not fn.endswith(".lean"):
                continue
            p = os.path.join(root, fn)
            src = strip_lean_comments(open(p).read())
            for n, line in enumerate(src.split("\n"), 1):
                if FORBIDDEN.search(line):
                    hits.append("%s:%d: %s" % (os.path.relpath(p, LEAN), n, line.strip()))
    return hits


def lean_audit(modules, theorems):
    """#print axioms for each theorem. Returns dict name -> (ok, axioms or error)."""
    os.makedirs(BUILD, exist_ok=True)
    src = "".join("import %s\n" % m for m in modules) + "".join("#print axioms %s\n" % t for t in theorems)
    fd, path = tempfile.mkstemp(suffix=".lean", dir=BUILD)
    os.write(fd, src.encode())
    os.close(fd)
    try:
        with Lock("lake"):
            rc, out = run(["lake", "env", "lean", path], cwd=LEAN, timeout=1200)
    finally:
        os.unlink(path)
    res = {}
    # output may wrap lines; normalise
    flat = re.sub(r"\s+", " ", out)
    for t in theorems:
        m = re.search(r"'%s' depends on axioms: \[([^\]]*)\]" % re.escape(t), flat)
        if m:
            ax = [a.strip() for a in m.group(1).split(",") if a.strip()]
            bad = [a for a in ax if a not in ALLOWED_AXIOMS]
            res[t] = (not bad, ax)
        elif re.search(r"'%s' does not depend on any axioms" % re.escape(t), flat):
            res[t] = (True, [])
        else:
            res[t] = (False, ["<not found or error: %s>" % flat[:300]])
    return res


# --------------------------------------------------------------------------- Go

def go_build():
    """build the harness from /repo's current working tree with -tags verif."""
    os.makedirs(BUILD, exist_ok=True)
    with Lock("go"):
        # go.sum of the harness module follows /repo's
        try:
            shutil.copyfile(os.path.join(REPO, "go.sum"), os.path.join(GO, "go.sum"))
        except OSError:
            pass
        gomod = os.path.join(GO, "go.mod")
        txt = open(gomod).read()
        want = "replace github.com/ipld/go-storethehash => %s" % REPO
        new = re.sub(r"replace github.com/ipld/go-storethehash => \S+", want, txt)
        if new != txt:
            open(gomod, "w").write(new)
        rc, out = run(["go", "build", "-tags", "verif", "-o", HARNESS, "."], cwd=GO, env=goenv(), timeout=1200)
    return rc == 0, out


def go_build_race():
    os.makedirs(BUILD, exist_ok=True)
    with Lock("go"):
        rc, out = run(["go", "build", "-race", "-tags", "verif", "-o", HARNESS + ".race", "."], cwd=GO, env=goenv(), timeout=1800)
    return rc == 0, out


# --------------------------------------------------------------------------- engines

def harness_cmd(args, timeout=600, binary=None):
    env = goenv()
    pre = "ulimit -v 12000000; exec "
    cmd = ["bash", "-c", pre + " ".join([binary or HARNESS] + [shq(a) for a in args])]
    return run(cmd, env=env, timeout=timeout)


def shq(s):
    s = str(s)
    if re.match(r"^[A-Za-z0-9_./=:-]+$", s):
        return s
    return "'" + s.replace("'", "'\\''") + "'"


def driver_run(trace_path, out_path, timeout=1200):
    with open(trace_path) as fin, open(out_path, "w") as fout:
        try:
            p = subprocess.run([DRIVER], stdin=fin, stdout=fout, stderr=subprocess.PIPE, timeout=timeout)
        except subprocess.TimeoutExpired:
            return 124, "<driver timed out after %s s>" % timeout
    return p.returncode, p.stderr.decode(errors="replace")


class TraceResult:
    def __init__(self):
        self.traces = 0
        self.ops = 0
        self.corr = []      # (trace, line, msg)
        self.prop = []      # (trace, line, msg)
        self.end = {}       # trace -> dict
        self.stats = {}
        self.errors = []


def parse_driver_out(path, res=None, prefix=""):
    res = res or TraceResult()
    for line in open(path, errors="replace"):
        line = line.rstrip("\n")
        if line.startswith("END "):
            d = dict(kv.split("=", 1) for kv in line.split()[1:] if "=" in kv)
            tid = prefix + d.get("trace", "?")
            res.end[tid] = d
            res.traces += 1
            res.ops += int(d.get("ops", "0"))
        elif line.startswith("CORR ") or line.startswith("PROP "):
            m = re.match(r"(CORR|PROP) trace=(\S+) line=(\d+) (.*)", line)
            if m:
                (res.corr if m.group(1) == "CORR" else res.prop).append((prefix + m.group(2), int(m.group(3)), m.group(4)))
        elif line.startswith("#stat "):
            for kv in line.split()[1:]:
                if "=" in kv:
                    k, v = kv.split("=", 1)
                    try:
                        res.stats[k] = res.stats.get(k, 0) + int(v)
                    except ValueError:
                        pass
    return res


def read_trace(path, tid):
    """Return the lines (without T/E) of trace `tid` from a trace file."""
    out = []
    cur = None
    for line in open(path, errors="replace"):
        line = line.rstrip("\n")
        if line.startswith("T "):
            cur = line.split()[1]
            hdr = line
            continue
        if line == "E" or line.startswith("E "):
            if cur == tid:
                return hdr, out
            cur = None
            continue
        if cur == tid:
            out.append(line)
    return None, out


def gen_and_drive(engine, n, seed, tier, workdir, shards=None, extra=None, timeout=None):
    """Generate n traces with the harness in parallel shards, replay each shard on the driver.
    Returns (TraceResult, list of (shard trace file))."""
    shards = shards or min(NCPU, max(1, n // 20))
    per = (n + shards - 1) // shards
    if timeout is None:
        timeout = 1800 if tier == "quick" else 14400
    files = []
    res = TraceResult()

    def one(i):
        tf = os.path.join(workdir, "%s.%d.tr" % (engine, i))
        of = os.path.join(workdir, "%s.%d.out" % (engine, i))
        args = ["gen", "-engine", engine, "-seed", str(seed), "-n", str(per), "-tier", tier, "-shard", str(i), "-o", tf]
        if extra:
            args += extra
        rc, out = harness_cmd(args, timeout=timeout)
        if rc != 0:
            return (i, tf, of, "harness exit %d: %s" % (rc, out[-2000:]))
        rc, err = driver_run(tf, of, timeout=timeout)
        if rc != 0:
            return (i, tf, of, "driver exit %d: %s" % (rc, err[-2000:]))
        return (i, tf, of, None)

    with ThreadPoolExecutor(max_workers=NCPU) as ex:
        for i, tf, of, err in ex.map(one, range(shards)):
            files.append(tf)
            if err:
                res.errors.append(err)
            if os.path.exists(of):
                parse_driver_out(of, res)
    return res, files


def replay_ops(engine, lines, workdir, tag="rp"):
    """Re-execute an op list on the real code, run the driver, return TraceResult and trace text."""
    inp = os.path.join(workdir, tag + ".ops")
    tf = os.path.join(workdir, tag + ".tr")
    of = os.path.join(workdir, tag + ".out")
    with open(inp, "w") as f:
        f.write("T 0 engine=%s\n" % engine)
        for l in lines:
            f.write(l.split(" -> ")[0] + " ->\n")
        f.write("E 0\n")
    rc, out = harness_cmd(["replay", "-engine", engine, "-i", inp, "-o", tf], timeout=300)
    if rc != 0:
        r = TraceResult()
        r.errors.append("harness replay exit %d: %s" % (rc, out[-1000:]))
        return r, ""
    rc, err = driver_run(tf, of, timeout=300)
    r = parse_driver_out(of)
    if rc != 0:
        r.errors.append("driver exit %d: %s" % (rc, err[-1000:]))
    return r, open(tf).read()


def msg_class(msg):
    """Stable class of a PROP message: digits and hex blobs abstracted."""
    m = re.sub(r"\[[^\]]*\]", "[..]", msg)
    m = re.sub(r"(index|data)\.\d+@", r"\1.F@", m)
    m = re.sub(r"items=\S*", "items=..", m)
    m = re.sub(r"[0-9a-f]{8,}", "H", m)
    m = re.sub(r"v=[0-9a-f]*", "v=H", m)
    m = re.sub(r"\d+", "N", m)
    return m[:120]


def shrink(engine, lines, workdir, want_class, budget=120):
    """Delta-debug the op list: keep a PROP message of the same class."""
    def fails(cand):
        r, _ = replay_ops(engine, cand, workdir, "shrink")
        return any(msg_class(m) == want_class for (_, _, m) in r.prop)

    # the first line sets the engine up and is never removed
    head, cur = list(lines[:1]), list(lines[1:])
    _fails = fails
    fails = lambda cand: _fails(head + cand)
    if not fails(cur):
        return head + cur, False
    # first cut the tail after the first failure
    n = 2
    tries = 0
    while len(cur) >= 2 and tries < budget:
        chunk = max(1, len(cur) // n)
        reduced = False
        i = 0
        while i < len(cur) and tries < budget:
            cand = cur[:i] + cur[i + chunk:]
            tries += 1
            if cand and fails(cand):
                cur = cand
                reduced = True
                n = max(n - 1, 2)
            else:
                i += chunk
        if not reduced:
            if chunk == 1:
                break
            n = min(len(cur), n * 2)
    return head + cur, True


# --------------------------------------------------------------------------- findings

def load_findings():
    out = []
    if not os.path.exists(FINDINGS_FILE):
        return out
    for line in open(FINDINGS_FILE):
        line = line.strip()
        if not line or line.startswith("#"):
            continue
        m = re.match(r"finding:\s+property=(\S+)\s+key=(\S+)\s+match=/(.*?)/\s+(.*)", line)
        if m:
            out.append(dict(kind="finding", prop=m.group(1), key=m.group(2), rx=re.compile(m.group(3)), text=m.group(4)))
    return out


# --------------------------------------------------------------------------- evidence

def write_evidence(pid, tier, seed, coverage, assumptions, wall, violations, level="proof"):
    os.makedirs(EVIDENCE, exist_ok=True)
    ev = dict(property_id=pid, tier=tier, seed=seed, level=level, coverage=coverage,
              assumptions=assumptions, wall_s=round(wall, 2), violations=violations)
    tmp = os.path.join(EVIDENCE, pid + ".json.tmp")
    with open(tmp, "w") as f:
        json.dump(ev, f, indent=1, sort_keys=True)
    os.replace(tmp, os.path.join(EVIDENCE, pid + ".json"))
