"""Regenerated facts: run the go/ast extractor on /repo, rewrite Sth/Generated/Facts.lean, build the obligations."""
import os
import re

from . import common as C

EXTRACT = os.path.join(C.BUILD, "extract")
FACTS = os.path.join(C.LEAN, "Sth", "Generated", "Facts.lean")


def build_extractor():
    with C.Lock("go"):
        rc, out = C.run(["go", "build", "-o", EXTRACT, "."], cwd=os.path.join(C.GO, "cmd", "extract"), env=C.goenv(), timeout=600)
    return rc == 0, out


def check_facts(spec, work):
    """spec: dict(modules=[lean modules with obligations], theorems=[names]) -> dict(obligations, discharged, breaks, summary)"""
    res = dict(obligations=len(spec.get("theorems", [])), discharged=0, breaks=[], summary={})
    ok, out = build_extractor()
    if not ok:
        res["breaks"].append("extractor build failed: " + out[-800:])
        return res
    with C.Lock("lake"):
        rc, report = C.run([EXTRACT, C.REPO, FACTS], timeout=300)
    if rc != 0:
        res["breaks"].append("extractor failed on /repo (source does not parse?): " + report[-800:])
        return res
    last = report.strip().split("\n")[-1] if report.strip() else ""
    pairs = [l for l in report.split("\n") if l.startswith("PAIR ")]
    res["summary"] = {"extractor": last, "unguarded_pairs": len(pairs), "pairs": pairs[:12]}
    with C.Lock("lake"):
        rc, out = C.run(["lake", "build"] + spec["modules"], cwd=C.LEAN, timeout=1800)
    if rc != 0:
        failed = sorted(set(re.findall(r"(Sth/Obligations/\w+\.lean):(\d+)", out)))
        names = []
        for (f, ln) in failed:
            try:
                src = open(os.path.join(C.LEAN, f)).read().split("\n")
                for i in range(int(ln) - 1, -1, -1):
                    m = re.match(r"theorem (\w+)", src[i])
                    if m:
                        names.append(m.group(1))
                        break
            except OSError:
                pass
        res["breaks"].append("obligation(s) over the regenerated facts no longer check: %s" % (", ".join(sorted(set(names))) or "see build log")
                             + ("; unguarded pairs: " + " | ".join(pairs[:6]) if pairs else ""))
        res["failed_theorems"] = sorted(set(names))
        res["discharged"] = max(0, res["obligations"] - len(set(names)))
        return res
    audit = C.lean_audit(spec["modules"], spec.get("theorems", []))
    for t, (good, ax) in audit.items():
        if good:
            res["discharged"] += 1
        else:
            res["breaks"].append("obligation %s: axioms %s" % (t, ax))
    return res
