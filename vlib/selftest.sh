#!/bin/bash
# usage: vlib/selftest.sh [seed-id-prefix]
# Applies every seeded change under /verif/seeded/ to /repo in turn, runs the quick check of the property it was written
# against, undoes it, and writes one line per change to /verif/seeded/SELFTEST.txt:
#   <seed-id> <property> caught | caught-no-input | MISSED
# Nothing else may use /repo while this runs (about 2 minutes per change).
set -u
cd /verif
OUT=/verif/seeded/SELFTEST.txt
: > $OUT.tmp
for d in seeded/${1:-}*/; do
  sid=$(basename $d)
  [ -f $d/patch.diff ] || continue
  pid=$(python3 -c "import json;print(json.load(open('$d/meta.json'))['property'])" 2>/dev/null) || continue
  if ! git -C /repo apply --check $PWD/$d/patch.diff 2>/dev/null; then echo "$sid $pid patch-does-not-apply" >> $OUT.tmp; continue; fi
  git -C /repo apply $PWD/$d/patch.diff
  rm -rf /verif/replays
  res=$(./check $pid 2>&1 | grep -E "^VIOLATION|^OK" | head -1)
  git -C /repo checkout -- .
  case "$res" in
    VIOLATION*no-failing-input-found) v=caught-no-input ;;
    VIOLATION*) v=caught ;;
    *) v=MISSED ;;
  esac
  echo "$sid $pid $v" | tee -a $OUT.tmp
done
(cd /verif/go && GOFLAGS=-mod=mod GOPROXY=off go build -tags verif -o /verif/build/harness . )
git -C /verif checkout -- evidence lean/Sth/Generated/Facts.lean 2>/dev/null
mv $OUT.tmp $OUT
echo "written $OUT"
