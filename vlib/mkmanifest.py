"""Regenerates /verif/MANIFEST.json from vlib/props.py and vlib/manifest_meta.py."""
import json
import os
import subprocess
import sys

sys.path.insert(0, os.path.dirname(os.path.dirname(os.path.abspath(__file__))))
from vlib.props import PROPS
from vlib.manifest_meta import META, NOT_APPLICABLE, HOOK_COMMITS

VERIF = os.path.dirname(os.path.dirname(os.path.abspath(__file__)))

checks = []
for pid in sorted(PROPS):
    m = META[pid]
    checks.append({
        "property_id": pid,
        "quick_cmd": "./check %s --tier quick" % pid,
        "thorough_cmd": "./check %s --tier thorough" % pid,
        "evidence_file": "/verif/evidence/%s.json" % pid,
        "replay_cmd_template": "./check %s --replay {path}" % pid,
        "engine": m["engine"],
        "level_claimed": {"category": "proof", "text": m["text"], "design_ref": m["design_ref"]},
        "level_note": m["note"],
        "technique": m["technique"],
    })

manifest = {
    "version": 1,
    "setup_cmd": "./setup.sh",
    "hooks": {
        "guard": "verif",
        "enable": "go build -tags verif (the harness in /verif/go is built with the tag against /repo via a replace directive)",
        "baseline_off_cmd": "cd /repo && GOFLAGS=-mod=mod GOPROXY=off go test -json -vet=off -count=1 -timeout 25m ./...",
        "source_commits": HOOK_COMMITS,
        # four of the five hook commits only add lines; d7faae8 also REPLACES the type name of eight mutex fields
        # (sync.Mutex / sync.RWMutex -> verifhook.Mutex / verifhook.RWMutex) and drops two now-unused "sync" imports: without the
        # tag those names are type aliases of the sync types, so the compiled code is unchanged, but lines were rewritten
        "add_only": False,
    },
    "engines": [
        {"name": "lean", "path": "/verif/lean", "serves_properties": sorted(PROPS), "kind_free_text": "Lean 4 model (Sth/Model), helper lemmas (Sth/Lemmas), property theorems (Sth/Props), line-protocol driver (Main.lean, Driver/)"},
        {"name": "harness", "path": "/verif/go", "serves_properties": sorted(PROPS), "kind_free_text": "Go harness built with -tags verif against /repo: drives the real code, records outputs and canonical state views, one engine per family of properties"},
        {"name": "check", "path": "/verif/check", "serves_properties": sorted(PROPS), "kind_free_text": "Python orchestrator: build, axiom audit, facts, correspondence, oracle search, shrinking, evidence"},
    ],
    "checks": checks,
    "not_applicable": [{"property_id": p, "reason": r} for p, r in sorted(NOT_APPLICABLE.items()) if p not in PROPS],
    "notes": "Technique: machine-checked proof in Lean 4 over a hand-written executable model, tied to /repo on every run by a correspondence check (real Go code vs the model's executable definitions on the same traces) and by facts regenerated from the source. See DESIGN.md. Hooks: bc07554, 1cc2f17, da9c99f, 7f9585e add lines only (package store/verifhook, one-line At(...) call sites, verif-only accessor files); d7faae8 replaces the type NAME of eight mutex fields in index, multihash primary, freelist and store by verifhook.Mutex/RWMutex - plain aliases of the sync types unless the verif tag is set, where they make every lock acquisition a scheduling point of the cooperative scheduler - and removes two imports that became unused (hence add_only=false; with the tag off the suite passes and the compiled code is identical).",
}
json.dump(manifest, open(os.path.join(VERIF, "MANIFEST.json"), "w"), indent=1)
print("wrote MANIFEST.json with", len(checks), "checks")
