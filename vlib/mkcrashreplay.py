"""usage: mkcrashreplay.py <tracefile> <traceid> <line> <out> <comment>
Corpus entry for the crash engine: the workload up to the failing line with its crashnext ops, so that the
images are REGENERATED from the current code on every run (an embedded image would only replay the past)."""
import sys, os
sys.path.insert(0, os.path.dirname(os.path.dirname(os.path.abspath(__file__))))
from vlib import common as C
tf, tid, ln, out, comment = sys.argv[1], sys.argv[2], int(sys.argv[3]), sys.argv[4], sys.argv[5]
hdr, lines = C.read_trace(tf, tid)
lines = lines[:ln]
with open(out, "w") as f:
    f.write("# " + comment + "\n")
    for l in lines:
        f.write(l.split(" -> ")[0] + " ->\n")
    # a few spare drains in case the current code produces more images than the run this was taken from
    for _ in range(40):
        f.write("crashnext ->\n")
print("wrote", out, len(lines), "lines")
