HOOK_COMMITS = ["bc07554", "1cc2f17", "da9c99f", "7f9585e", "d7faae8"]

SEQ_NOTE = ("Trusts: Lean kernel; the byte-exact correspondence run of the physical model (Sth/Model/Store.lean, GC.lean) against the "
            "real store (every output, decoded pools and bucket table after every mutation, every file after every flush/GC/close); the "
            "generators. File system modelled as name -> bytes; Go map iteration order and GC deadlines are trace inputs.")

PENDING = "check not built yet in this round (model and theorems are planned in DESIGN.md section 5); not claimed until its check exists"
NOT_APPLICABLE = {p: PENDING for p in ["C%02d" % i for i in range(1, 18)]}

META = {
    "C08": dict(
        engine="lean+harness(c08)",
        design_ref="DESIGN.md section 5, C08",
        technique="Lean 4 proof (induction over operation sequences, record-list invariant) + byte-exact correspondence with index.Index",
        text="Unbounded proof: for every prefix-free key universe and every disciplined sequence of index Put/Update/Remove the "
             "record list stays sorted, prefix-free, own-prefix, with distinct locations; present keys resolve to their latest "
             "location, absent keys to nothing or another key's location; update/remove touch exactly one entry; the byte codec "
             "round-trips. The model is the per-bucket logic of index.Put/Update/Remove/Get and recordlist.go; it is tied to the "
             "code by byte-for-byte comparison of the record list and every Get after every operation on the real index.",
        note="Trusts: Lean kernel; the correspondence run (generators confined to one bucket, bits 8..24); the in-memory primary as "
             "the source of full keys. Stored prefixes >= 256 bytes are excluded by the codec theorem's hypothesis (the one-byte "
             "length field; negative witness proved).",
    ),
    "C14": dict(
        engine="lean+harness(fc)",
        design_ref="DESIGN.md section 5, C14",
        technique="Lean 4 proof (state invariant over all op sequences and capacities) + correspondence with filecache.FileCache on real files",
        text="Unbounded proof: for every capacity and every client-respecting sequence of Open/Close/Remove/Clear/SetCacheSize a lent "
             "handle is open, no handle is closed twice, a released uncached handle is closed, reference counts equal outstanding "
             "loans, open descriptors <= capacity + lent handles. Tied to the code by comparing handle identity, Len, Cap, fstat "
             "validity of every handle ever returned and the /proc/self/fd count after every operation.",
        note="Trusts: Lean kernel; os.File.Stat as the liveness probe. 'Concurrent use' is reduced to the sequential theorem by two "
             "obligations over the regenerated facts: every access of a FileCache field holds c.lock exclusively (C14_methods_atomic) and "
             "every exported method is ONE critical section, c.lock.Lock() having one call site in it (C14_methods_single_section): any "
             "concurrent execution is then a sequence of whole methods, which is what the theorem quantifies over.",
    ),
}

META["C01"] = dict(
    engine="lean+harness(seq)",
    design_ref="DESIGN.md section 5, C01",
    technique="Lean 4 proof (refinement of the physical store model to a finite map; record-list invariant) + byte-exact correspondence with store.Store",
    text="The model is the store's Put/Get/Has/GetSize/Remove/Flush/iteration over pools, bucket table and byte-exact index/primary/freelist "
         "files; the theorem states that every output equals the output of a finite map for all configurations, key sets and histories "
         "(C01_store_refines_map, Sth/Props/C01.lean: PROVED for both primaries, both immutability modes, bits 8..31, file limits 1 B..1 GiB, "
         "flushes at arbitrary positions with arbitrary flush orders, malformed keys included; ~4500 lines of lemmas, no extra hypothesis; "
         "the first proof attempt found defect D30, since repaired). The model is tied to the code by comparing every output, the decoded in-memory state and "
         "the bytes of every file with the real store on generated traces, and every real output is checked against the map specification.",
    note=SEQ_NOTE,
)
META["C02"] = dict(
    engine="lean+harness(seq)",
    design_ref="DESIGN.md section 5, C02",
    technique="Lean 4 proof (refinement with Close+reopen among the calls; snapshot path = rescan path) + correspondence on bytes and bucket tables; two-path oracle on the real code",
    text="Model of Store.Close/OpenStore including saveBucketState/loadBucketState, scanIndex with tail truncation and findLast*, executable "
         "and compared byte-for-byte with the real store across close/reopen with a usable, a missing and a damaged snapshot; the real "
         "code's live table, snapshot-path table and rescan-path table are compared directly. PROVED (Sth/Props/C02.lean, ~1850 lines of lemmas on "
         "top of C01's): C02_store_refines_map (every legal configuration, every sequence of Put/Get/Has/GetSize/Remove/Flush/iteration/"
         "Close+reopen with or without the snapshot returns what the map returns: every reopen succeeds and preserves the contents), "
         "C02_snapshot_eq_rescan (both open paths load the same non-zero bucket table and the same record lists), "
         "C02_reopen_preserves_observations, C02_reopen_twice, C02_store_refines_map_gc (= C04_store_refines_map: the same with index GC "
         "and primary GC cycles among the calls, under the file-counter premise GcCountersOK), which is the statement at full strength: "
         "no matter how many flushes, rollovers or GC cycles preceded the reopen.",
    note=SEQ_NOTE,
)
META["C04"] = dict(
    engine="lean+harness(seq)",
    design_ref="DESIGN.md section 5, C04",
    technique="Lean 4 proof (the physical store with index GC and primary GC cycles - complete or cut at any poll - and reopens at arbitrary positions refines the map) over the byte-level model of both collectors + correspondence (poll budgets as trace inputs) + map-specification oracle with GC erased",
    text="Model of Index.gc/truncateFreeFiles/reapIndexRecords and primaryGC.gc/processFreeList/deleteRecords/reapRecords incl. relocation "
         "and time-limit resume, compared byte-for-byte with the real collectors at arbitrary positions of C01 histories; after every "
         "cycle every key is read back against the map specification. PROVED (Sth/Props/C04.lean, ~7600 lines of lemmas): "
         "C04_store_refines_map - NO restriction on the operations: for every legal configuration, every history of Put/Get/Has/GetSize/"
         "Remove/Flush/iteration/Close+reopen with index GC cycles (with or without the free-file scan) and primary GC cycles (hand-over "
         "x2, apply, merge, truncate, unlink, relocation with conditional re-pointing) at arbitrary positions, each complete or cut at "
         "ANY poll by the deadline, every call returns what the map returns. One explicit decidable premise beyond C01's: "
         "GcCountersOK (file numbers stay below 2^28 along the run; C04_store_refines_map_budget gives a sufficient bound on the calls "
         "alone) - relocation re-appends records, so the uint32 file counter is no longer bounded by the number of calls; without it "
         "the file number can wrap (a limit of the store, documented, not exercised). Unconditional for the CID primary "
         "(C04_store_refines_map_cid). Also: C04_indexGC_stutters, C04_reopen_after_igc, C04_primaryGC_stutters(_reachable) (no live "
         "record is ever marked deleted, truncated or lost in relocation), C04_gc_cycles_invisible, C04_gc_idempotent_on_contents.",
    note=SEQ_NOTE,
)
META["C15"] = dict(
    engine="lean+harness(bs)",
    design_ref="DESIGN.md section 5, C15",
    technique="Lean 4 adapter model over the store model (hash function as a parameter) with correspondence + blockstore-contract oracle",
    text="Model of every HashedBlockstore method (context check, store call on c.Hash(), error mapping, hash-on-read) over the store model; "
         "compared with the real adapter on blocks of all sizes, CID versions, codecs and hash functions, aliases, cancelled contexts and "
         "mismatching blocks, and checked against the blockstore contract. PROVED (Sth/Props/C15.lean over Sth/Model/AdapterMachine.lean): "
         "C15_adapter_refines_contract (every sequence of adapter calls over the physical store returns what the blockstore contract, a map "
         "from multihash digests to bytes, returns; hash function a parameter), with clause theorems put_then_get, has/size agree with get, "
         "delete_not_found, duplicate_put_silent, unknown_cid_not_found, alias_same_block/alias_delete, hash_on_read (enabled/disabled/after "
         "toggle), malformed_cid, cancelled_ctx (no store call, no state change).",
    note=SEQ_NOTE + " The hash function is a parameter (real Sum's verdict is trace input).",
)

META["C03"] = dict(
    engine="lean+harness(crash)",
    design_ref="DESIGN.md section 5, C03",
    technique="Lean 4 proof (every crash image of a Flush - any byte cut, early rollover - recovers without error to the old or the new value per key) over a crash-image model tied to real images + real recoveries of captured and torn crash images compared with the model's; crash-safety specification evaluated on every real recovery",
    text="Crash images are captured by hook points between file-system steps of Flush, Close, Open and both GCs on the real code; torn "
         "variants are every byte prefix of each appended region. Each image is recovered by the real code (open, read all, follow-up "
         "workload with GC, rescan) and by the Lean model from the same bytes; the crash-safety clause (flushed value or a later "
         "acknowledged one, never an error, behaviour preserved afterwards) is evaluated on the real outcome. PROVED (Sth/Props/C03.lean, "
         "over Sth/Model/CrashImage.lean whose images are compared with every real image captured inside Flush): "
         "C03_flush_crash_recovers (for every legal configuration, every history of Put/Get/Has/GetSize/Remove/Flush/iteration/reopen, "
         "every flush order, EVERY number of file events k and both rollover variants: the image reopens without error and every key "
         "- any byte string - reads what it read at the last completed flush or what it reads after this one), "
         "C03_flush_crash_against_map (the same against the map at the last durable point / now; never an error for a well-formed "
         "key), C03_removed_flushed_stays_absent, C03_flushed_unchanged_survives, C03_image_zero/_full, "
         "C03_recovered_store_keeps_working_partial (the recovered store refines the map again from a mixture of the durable and the "
         "current contents, for every continuation; its invariants allow it to crash and recover again; the only weakening is a factor "
         "2 in the byte budget premise); C03_close_crash_recovers / _against_map / _keeps_working_partial / C03_close_images_recover "
         "over Sth/Model/CrashImageClose.lean (every crash image of Store.Close: flush images of primary+index, snapshot absent or "
         "present, freelist append images - with the snapshot present every key reads the NEW value) and C03_snapshot_needs_complete_index "
         "(decide witness that the order index flush before snapshot rename is load-bearing); C03_igc_interrupted_crash_recovers "
         "(a crash after an index GC cycle cut at ANY poll - any state of any history incl. GC, dirty pools allowed, both primaries: "
         "every byte string reads what recovery of the disk before the cycle reads), C03_pgc_interrupted_crash_recovers (the same for a "
         "primary GC cycle that starts with an EMPTY INDEX POOL: nothing acknowledged is lost) and "
         "C03_d11_pgc_dirty_index_pool_loses_durable_value (decide: without that premise a flushed value is lost = known finding D11 in "
         "the model); C03_crash_after_gc_history (+ _against_map, _keeps_working_partial, CID variants): the flush-crash theorem for "
         "histories that CONTAIN index GC and primary GC cycles and reopens anywhere (premises GcCountersOK and PgcFromClean = D11; the "
         "continuation after recovery may contain index GC but, on the multihash primary, no primary GC = known finding D12). "
         "Crashes while OpenStore itself runs (Sth/Model/CrashImageOpen.lean: the directory after every file-system step of an open - "
         "freelist cut, header writes, snapshot REMOVED after loading, scan truncations, file creations): C03_open_crash_recovers / "
         "_restarted / _close / _gc (for every reachable durable disk, every crash image of a Flush or a Close, histories with GC "
         "included: an open interrupted at ANY step and restarted ANY number of times ends in the same directory, the same memory state "
         "and the same answers), C03_open_crash_old_or_new, C03_open_crash_first_open. "
         "Granularity: the model is cut at polls; the file-system steps between two polls are each atomic and covered by the "
         "crash engine. Partial with respect to the statement: "
         "crashes inside open and upgrade steps and between the polls of a GC cycle are "
         "covered by the crash engine (images at ~100 hook points recovered by the real code and by the model), not by theorems; known findings "
         "D11, D12 are excluded by decidable recognisers on the image/history.",
    note=SEQ_NOTE + " Process-crash semantics: bytes reach files in order; rename/unlink/truncate/4-byte pwrite atomic. Hook completeness "
         "(every FS step lies between two points) is by construction of the hook commit, not yet audited with strace.",
)

SCHED_NOTE = ("Trusts: Lean kernel; the cooperative scheduler of the harness (goroutines parked inside verifhook.At, one released at a time, "
              "blocking detected by a grace period); the event log as the history; the linearizability search of the driver. Interleavings "
              "are explored at the granularity of the named points; the Go scheduler, memory model and kernel are not modelled.")
META["C05"] = dict(
    engine="lean+harness(sched)",
    design_ref="DESIGN.md section 5, C05",
    technique="Lean 4 proof (linearizability of the lock-section model for all schedules without overlapping mutators of one key; unconditional frame theorem) + the model replayed on every real schedule + linearizability search on the real histories",
    text="Real concurrent histories are produced by parking goroutines at the lock-section boundaries of Put/Remove/Get/Index.Get/Flush "
         "and releasing them under seeded schedules; the Lean driver checks that no call errs, searches exhaustively for a linearization "
         "against the map specification and compares the quiescent contents with the linearization's final state. PROVED over "
         "Sth/Model/Conc.lean (calls as sequences of lock sections; tied to the code by replaying every real schedule over named points: "
         "return values and final contents agree, D17 behaviours included; section atomicity is the regenerated fact C05_mutators_atomic): "
         "C05_linearizable (every schedule in which mutators of one key do not overlap: the ghost log taken at the linearization points "
         "is a legal sequential map history ending in the final contents, each call's entry is appended by one of its own sections, the "
         "results returned are the log's), C05_real_time, C05_linearizable_owned (one writer per key suffices, for EVERY schedule), "
         "C05_read_your_writes, C05_keys_do_not_interfere (unconditional frame), C05_freelist_exactly_once / C05_no_leak, and decide-"
         "witnesses that the premise is needed (Update error, lost Put with leaked record, double free = known finding D17). Middle layer "
         "Sth/Model/ConcPools.lean (the two-pool protocol of the index and of the primary under concurrent Flush, sections at the "
         "hook points): C05_pools_view_invariant (with the code's locking, for every interleaving of writers, readers and flushers no "
         "flush section changes any bucket's view and a read returns the view at its info section), C05_pools_section_effect, and decide "
         "witnesses for the two seeded defects that lived there (flushLock taken after the swap: a completed update lost for good; a "
         "reader skipping the pools: stale value), C05_pools_read_your_writes, C05_pools_refines_conc_run (the pool layer implements "
         "Conc's atomic index sections: every flush section is a stutter), and the primary's pools (C05_pools_primary_write_once / _get: "
         "an allocated location keeps its record across any number of flushes; never EOF, never another record). Real schedules are "
         "replayed on this model too. "
         "Non-interference INSIDE one bucket's record list is C08's frame theorems.",
    note=SCHED_NOTE,
)
META["C06"] = dict(
    engine="lean+harness(sched)",
    design_ref="DESIGN.md section 5, C06",
    technique="Lean 4 proof of the sequentialised windows (whole and cut GC cycles between calls: C04; the relocation window with arbitrary calls between copy and re-pointing: C06W) over the byte-level collector model + real schedules with both collectors as scheduled threads (collector sub-steps and lock acquisitions as scheduling points, window schedules) + directed replays of the known windows",
    text="As C05 with primary and index GC cycles running as a scheduled thread over a store prepared with garbage in several files; "
         "every collector sub-step is a scheduling point; 40% window schedules (the collector runs alone except for one window at a "
         "chosen point in which the other threads run whole calls). PROVED: C04_store_refines_map (GC cycles, whole or cut at any poll, "
         "between calls are invisible) and, for the most dangerous window (Sth/Props/C06W.lean over Sth/Model/GCSplit.lean, whose two "
         "halves compose to the model's `relocate` by C06_relocate_split): C06_relocation_window_invisible (any record span of a closed "
         "file, ANY list of Put/Get/Has/GetSize/Remove/Flush/iteration calls between the collector's copy and its re-pointing: every "
         "call returns what the map returns, afterwards the store satisfies the GC invariant for the map AFTER the window - a key "
         "overwritten or removed inside the window is not resurrected, an untouched key names the copy), C06_window_reads_after_finish, "
         "C06_window_exactly_once_moved, decide witnesses that the unconditional re-pointing (defect D29, repaired) and the weakened "
         "comparison of a seeded change resurrect the old value, and C06_refused_path_records_old_twice (finding D32: on the refused path "
         "the old location, already recorded by the writer, is recorded again). The hand-over windows (Sth/Props/C06H.lean: "
         "C06_handover_window_invisible - calls after the freelist hand-over and after the collector's own flush: every call returns what "
         "the map returns, no call writes the .gc file, no handed-over entry names a pooled record at the apply, the apply keeps the GC "
         "invariant whatever its outcome and leaves everything the windows recorded for the next pass) and index GC between busy check "
         "and mark (Sth/Props/C06I.lean: C06_igc_free_verdict_stable - the bucket table only moves forward, so 'not in use' never flips "
         "back - and C06_igc_late_mark_safe - a file reaped on the basis of an EARLIER table read and written at a later state is a legal "
         "reap then: the one-step model covers the step-wise collector). Directed schedules in the corpus reconfirm the known "
         "windows D18a/D18b (a READER holding a position across a collector step) on every run; those are outside the theorems.",
    note=SCHED_NOTE,
)
META["C12"] = dict(
    engine="lean+harness(sched)",
    design_ref="DESIGN.md section 5, C12",
    technique="Lean 4 proof over a small-step model of flushTick/Flush/run (invariant by induction over all schedules) + release specification evaluated on real schedules of the hook points",
    text="Writers are forced onto the waiting path (burst 0, tiny measured rate) on a Started store; scheduling points inside flushTick and "
         "Flush; the store's own flusher goroutine runs freely and is logged. The driver reports a writer still parked on the notice after a "
         "flush completed after its wait began. Proved for every number of writers/Flush callers and every "
         "schedule: a registered writer holds the current notice, any completing Flush (normal or no-work exit) releases it, a parked "
         "writer always has a token or a flush in progress, the ticker keeps the flusher enabled; the D6 schedule is a proved negative "
         "witness for the unrepaired variant.",
    note=SCHED_NOTE + " Weak fairness of the flusher is assumed for the liveness reading.",
)

META["C11"] = dict(
    engine="lean+harness(seq)",
    design_ref="DESIGN.md section 5, C11",
    technique="Lean 4 proof (one complete cycle releases a file without live data, index and primary side; no growth; fixed point on the primary side; the low-use visit step) over the byte-level model of both collectors + correspondence over drain histories + progress bounds evaluated on the real directory (complete cycles, time-limited cycles, recovered stores)",
    text="Histories ending with files without live data are run through bounded GC rounds; the bounds of the property (dead primary file "
         "released in <= 2 cycles, unreferenced index file in <= 2 cycles, no growth of reported storage, fixed point) are evaluated on the "
         "real store's own views and the model is compared byte-for-byte. PROVED (Sth/Props/C11.lean, ~3900 lines, on states reachable by ANY "
         "history incl. GC): C11_index_file_released (a non-current index file no bucket points into is zero-length or unlinked after ONE "
         "complete cycle with the free-file scan; unlinked in that cycle when every file before it is free too), C11_index_released_stays, "
         "C11_index_reap_free_file (what a cycle without the scan does to such a file), C11_primary_file_released (one complete primary GC "
         "cycle, any threshold, releases a non-current file no entry points into; C11_primary_file_released_unconditional derives the "
         "coverage hypothesis from reachability via C13_gc_covered, leaving only file length < 2^31 and VisitedStable, which fail only "
         "when the file limit plus the largest record reaches 2^31), C11_no_growth_index "
         "/ _primary (no cycle makes any file longer; relocation pools byte-for-byte copies, at most two per visit), "
         "C11_fixed_point_primary (after a complete cycle that left the pools empty every further cycle is the identity), "
         "C11_low_use_visit (the one-visit step of draining; the cycle bound is shown on a decide example, not by induction). Findings "
         "recorded as observations (decide runs in the file; none contradicts the statement): a stale resume point wastes one index GC "
         "cycle; after a RESUMED index cycle the fixed point needs one more cycle; a primary file released while it was not the oldest "
         "stays in the visited set as a zero-length file and, once it is the first file, blocks every later unlink until a reopen. "
         "CLOSED FORMS (Sth/Props/C11D-G.lean): C11_low_use_drained_bound (a low-use closed file with n record spans in use is released "
         "after ceil(n/2) rounds of cycle+flush and one more complete cycle, by induction over the rounds; C11_low_use_round is the step), "
         "C11_index_cycle_visits_all / C11_index_cycle_stale_resume (a complete index cycle reaches every non-current file; what a stale "
         "resume point costs), C11_primary_files_short and C11_visited_stable (invariants of every reachable state: every primary file is "
         "shorter than file limit + 4 + largest record, and every visited file without a record span is empty), and from them "
         "C11_primary_file_released_closed: the release of a dead primary file by ONE complete cycle with premises on the configuration "
         "and the calls only (RecBoundOK: file limit + largest record < 2^31; PassesOK: no cycle of the history was cut short inside its "
         "hand-over passes). The proof attempt without PassesOK produced a reachable counterexample (a cycle cut after deleteRecords "
         "dropped the affected set; the file stayed visited for good): defect D33, reproduced on the real code through the exported "
         "MultihashPrimary.GC(ctx), repaired by fix commit 552b64c; the model carries the repair and C11_cut_handover_pass_file_released "
         "records the repaired run. On the repaired model the premise is gone: C11_primary_files_short_all, C11_visited_stable_all and "
         "C11_primary_file_released_all (Sth/Props/C11P.lean) are the same three statements WITHOUT PassesOK, with the run that contains "
         "the cut cycle as the non-vacuity instance (the old premise is false on it). 40% of the c11 histories contain a cycle "
         "whose context expires inside the hand-over pass.",
    note=SEQ_NOTE,
)
META["C13"] = dict(
    engine="lean+harness(seq)",
    design_ref="DESIGN.md section 5, C13",
    technique="Lean 4 proof (freelist = concatenation of superseded locations, over all C01 histories) + accounting specification evaluated on the real store after every operation and after scheduled hand-over interleavings",
    text="After every mutating operation the locations named by live index entries and the recorded locations (freelist pool, file, .gc) "
         "of the real store are listed; superseded = newly recorded, nothing twice, nothing current, nothing vanishes without GC, a "
         "complete cycle consumes everything recorded before it. PROVED (Sth/Props/C13.lean): C13_step (one call appends exactly the old "
         "current block for an overwrite/removal of a present key, nothing for a new key, a rejected Put, a Remove of an absent key, "
         "a read or a flush), C13_recorded_not_current / C13_current_not_recorded, C13_exactly_once (no location twice), C13_run "
         "(recorded = concatenation of the superseded locations of the whole history), C13_file_well_formed; for every legal "
         "configuration and C01 history. Along histories WITH garbage collection (Sth/Props/C13G.lean): C13_gc_nothing_current_recorded "
         "(no recorded block - freelist file, .gc file, pool - has the offset of a current record, any history under GcCountersOK), "
         "C13_gc_consumes (a complete primary GC cycle leaves the freelist file empty and no .gc file: everything recorded before it "
         "was presented to it; what remains recorded is what the cycle itself recorded by relocation), C13_gc_pool_after; and the "
         "statement at full strength for sequential histories (Sth/Props/C13H.lean, ~3850 lines): C13_gc_covered (COMPLETENESS: in every "
         "state of every history - GC cycles of both kinds, complete or cut, reopens anywhere - every record span that is not marked "
         "deleted, of every primary file and of the pools, is current or recorded) and C13_gc_exactly_once (with the ghost list of "
         "consumed blocks: recorded has no duplicates, consumed has no duplicates, the two are disjoint, and neither names a current "
         "record - every superseded location is recorded exactly once, presented to the collector exactly once, and never recorded, "
         "consumed or current again). The concurrent hand-over (Put || Flush || ToGC) is covered by the sched runs, not by theorems."
         " THE CONCURRENT HAND-OVER (Sth/Model/FreeConc.lean, Sth/Props/C13F.lean): freelist Put || Flush (two lock sections) || ToGC (inner "
         "Flush, close, rename, reopen under flushLock) || the collector's apply/remove, as a small-step machine with any number of "
         "writer and flusher threads and one collector; for EVERY schedule: C13_concurrent_handover_exactly_once / _global_fifo (consumed ++ "
         ".gc ++ file ++ in-flight ++ pool equals the log of returned Puts, in order), _nothing_lost_at_quiescence, _order (per-writer FIFO), "
         "_file_exists_when_unlocked, _flush_finds_file, _lock_exclusive; negative witnesses _without_flushlock_loses and "
         "_two_collectors_loses (why the lock and the single collector are needed). Tied to the code by REPLAY: every real schedule of the "
         "sched engine (all profiles; without blocked threads, relocation or the unscheduled flusher) is turned into the model's events - a "
         "freelist Put after the release from store.put.index_done / store.remove.index_done, the hook points of Flush and ToGC, "
         "primary.gc.fl.applied / .removed - starting from the pool:file:.gc counts the harness reports; every event must be ENABLED in the "
         "model (lock free, pool empty or not, file present) and the three counts after the schedule must agree "
         "(C13_handover_replay_exactly_once speaks about exactly this run). "
         "THE FLUSH BARRIER (Sth/Model/BarrierConc.lean, Sth/Props/C13B.lean): Store.Put/Remove (primary Put section, freelist Put section) "
         "|| primary Flush (swap section + write section under flushLock) || freelist Flush || the collector's pass (ToGC, ITS OWN primary "
         "Flush, apply, remove): for EVERY schedule no freelist entry is applied to a record that is not in the primary file yet "
         "(C13_barrier_nothing_missed, C13_barrier_apply_finds_all), and applied ++ pending = freed as lists (C13_barrier_applied_exactly); "
         "negative witnesses C13_barrier_needs_lock_wait (a Flush that returns without queueing when nothing is pooled: the change two "
         "independent reviewers seeded in round 6), C13_barrier_needs_order (flush before hand-over: defect D4), "
         "C13_barrier_two_collectors_miss. Its premises are obligations over the regenerated facts (C13_flush_is_barrier: every return "
         "of the three Flush functions holds the function's flushLock; gc() calls ToGC, then the primary's Flush, then processFreeList), "
         "and the flush-window schedules of the c13 profile put a collector cycle inside a Flush on the real code.",
    note=SEQ_NOTE,
)

META["C07"] = dict(
    engine="lean+harness(seq)",
    design_ref="DESIGN.md section 5, C07",
    technique="Lean 4 proof (fsck returns no violation in every reachable state of the physical model; the rescan rebuilds the live table) + the same Lean fsck evaluated on the REAL directory bytes after every flush/GC/reopen",
    text="Sth/Model/Fsck.lean parses headers, snapshot, every index and primary file, freelist and .gc and checks every clause of the "
         "statement; the driver evaluates it on the real bytes (not on the model's) after every quiescent point of generated histories, "
         "and C03's engine recovers crash images whose follow-up behaviour depends on the same invariant. PROVED (Sth/Props/C07.lean): "
         "C07_fsck_clean (for every legal configuration and every history of Put/Get/Has/GetSize/Remove/Flush/iteration/Close+reopen, "
         "`fsck kind disk liveTable = []` in EVERY reachable state, no after-a-flush hypothesis), C07_recovered_table (the rescan "
         "rebuilds the live table in every reachable state; snapshot and rescan agree after Close), clause theorems (bucket points at "
         "its own complete non-deleted record list above the header's first file; prefixes sorted, prefix-free, locations distinct; "
         "every entry names a complete non-deleted primary record of the recorded size whose key falls in the bucket and extends the "
         "prefix; freelist disjoint from live), negative witnesses on concrete corruptions (the checker is not vacuous). Partial: "
         "C07_fsck_clean_igc / C07_recovered_table_igc / C07_reopen_igc / C07_after_igc extend all of this to histories WITH index GC "
         "cycles (complete or cut at any poll); C07_fsck_clean_gc_partial / _afterFlush extend it to histories with PRIMARY GC cycles "
         "under GcCountersOK and the premise that every primary GC cycle starts with an empty index pool (decidable on the run; implied "
         "by a flush/iteration/reopen directly before each cycle); unconditional for the CID primary. The premise is known finding D11: "
         "C07_d11_witness (put; flush; put; pgc: fsck reports an entry naming a deleted record) and C07_d11_relocation_witness - a NEW "
         "variant found by the proof: a primary GC cycle itself leaves the index pool dirty (Index.Relocate updates the pool only), so "
         "two cycles in a row without a Flush in between leave the on-disk index naming an unlinked file.",
    note=SEQ_NOTE,
)
META["C17"] = dict(
    engine="lean+harness(res)",
    design_ref="DESIGN.md section 5, C17",
    technique="Lean 4 proof over a small-step model of the stop/done handshakes (invariant over all schedules and configurations) + shutdown specification evaluated on real processes with collector cycles parked at hook points",
    text="Close is issued on stores with real background flusher and collectors while a cycle is parked at each of 31 named points; the "
         "harness observes that Close blocks until the cycle is released, and that afterwards no store goroutine, no descriptor and no "
         "directory change remains; failing opens and repetition runs likewise. Proved over the small-step model "
         "(Sth/Model/Lifecycle.lean: closer, flusher, both collector loops and cycles, channels closing/closed/stop/done/cycle-done, "
         "cancelled contexts) for every configuration and schedule: Close returned => no background thread alive, every logged FS step "
         "precedes the return and none follows in any continuation, second Close changes nothing, Close cannot return while a cycle "
         "runs; negative witnesses for a loop that does not wait for its cycle and for Start racing Close.",
    note="Trusts: Lean kernel; the goroutine dump / procfs / stat observations of the harness; 70 ms observation window after Close.",
)

META["C09"] = dict(
    engine="lean+harness(seq,crash)",
    design_ref="DESIGN.md section 5, C09",
    technique="Lean 4 proof (re-bucketing refines the same map for all pairs of bit sizes, both open paths; mismatching limits refused with the directory untouched) + byte-level correspondence of translateIndex/MoveFiles; crash images at every move; map oracle",
    text="Model of translateIndex (old index opened with its own bits, entries iterated in bucket order, re-inserted through index.Put into "
         "a fresh index whose flush order is a parameter, directory swap) compared byte-for-byte with the real store over hundreds of "
         "re-bucketings and refused opens; crash images inside the translation are recovered by the real code. PROVED (Sth/Props/C09.lean): "
         "C09_translate_preserves_contents (for every legal configuration pair differing in bits, every history before, every flush "
         "order of the old and the new index, snapshot kept or dropped: the reopen succeeds, primary, freelist and primary header are "
         "untouched, the index header carries the new bits, and EVERY later history returns what the map continued from the old "
         "contents returns), C09_reads_preserved, C09_mismatch_refused (a different index file-size limit - whatever the bits - or "
         "primary file-size limit is refused with the specific error and the directory returned is the input directory), "
         "C09_same_bits_no_translation, C09_strip_total (the premise on keys suffices for both bit sizes), C09_unspecified_ifs (the "
         "observation that IndexFileSize(0) silently switches to the default limit: contents preserved). The same theorems for stores "
         "whose history contains GARBAGE COLLECTION (Sth/Props/C09G.lean): C09_translate_preserves_contents_igc (index GC cycles, "
         "complete or cut at any poll, before AND after the bit-size change, both primaries: the old table is read through the snapshot "
         "or the rescan of a span log with deleted spans and an advanced first file), C09_translate_preserves_contents_gc (primary GC "
         "too, under GcCountersOK; no D11 premise needed: the translation follows a clean Close), C09_translate_keeps_gc_invariant (the "
         "re-bucketed store satisfies the GC invariant, so all of C04 applies to it), refusals and same-bits for the same histories. "
         "Crashes inside the re-bucketing (Sth/Props/C09Crash.lean over the step model translateSteps of Sth/Model/CrashImageOpen.lean): "
         "C09_translate_crash_safe_steps (before the first file move the directory IS the cleanly closed one; from the arrival of the new "
         "header on, recovery gives exactly what it gives on the finished translation; every other step is in the window), "
         "C09_d13_window (the window = old files/header moved out ... new files moved in, before the new header), decide witnesses of "
         "what the next open does there (refused while the old header is still present, ZERO keys once it is gone) = known finding D13, "
         "and C09_d13_recogniser_covers_window / _extra_step, which compared the harness's recogniser with the window and found it one "
         "step too wide (corrected: header absent or still with the old bit size).",
    note=SEQ_NOTE,
)

META["C10"] = dict(
    engine="lean+harness(seq,crash)",
    design_ref="DESIGN.md section 5, C10",
    technique="Lean 4 proof (the byte-level upgrade of every well-formed legacy store refines the map of its contents minus freed records; records stay whole; fsck clean) over a model compared byte for byte with the real upgrade + pure core (re-chunking, offset remapping) + fsck and map oracle + crash images of every upgrade step",
    text="Proved for every record sequence, limit and offset: chunks concatenate to the input, no record is split, every chunk but the last "
         "reaches the limit, record starts stay below the limit, a record's linear offset is remapped to exactly the chunk and offset where "
         "it now starts, offsets beyond the primary are rejected. The real upgrade of generated legacy stores is compared with these "
         "functions, its result is checked by the Lean fsck and the map oracle, and the model is re-synchronised from the upgraded "
         "directory so later history is byte-compared. The resume clause is examined by the crash engine; known finding D14. PROVED end to end over the byte-level model Sth/Model/UpgradeBytes.lean (whose output equals the real upgraded directory "
         "byte for byte on every generated legacy store): C10_upgrade_contents (for every legal multihash configuration and every "
         "well-formed legacy store - executable check LegacyC.wfCheck - the upgrading open succeeds, a following Flush changes nothing, "
         "and EVERY later history on the upgraded store, or on the store reopened from its directory, returns what the map started from "
         "the legacy contents minus freed records returns), C10_upgrade_reads, C10_upgrade_records_whole (numbered files = chunks of the "
         "legacy records, every non-freed record byte-identical, sizes = chunkFileSizes, every bucket reads its current legacy list with "
         "offsets remapped by remapOffset and every entry resolves to the record it named), C10_upgrade_fsck (fsck clean on the upgraded "
         "directory and after every later run). Unmappable entries (Sth/Props/C10c.lean): C10_upgrade_contents_bad (multi-chunk stores with entries whose offset lies "
         "beyond the legacy primary: for EVERY flush order of the removal pool the upgraded store refines the map with those keys absent, "
         "fsck clean, also after reopen), C10_upgrade_bad_single (single-chunk stores: nothing is remapped, the entries stay, every "
         "well-formed key still reads its legacy value or absent; fsck clean when exactly those offsets are ignored). Torn tails (Sth/Props/C10d.lean): C10_torn_primary (for EVERY torn tail of the legacy primary the upgrading open is "
         "literally the one of the store with the torn record removed whole - repaired code, defect D31 found by this model: the size "
         "prefix of the torn record used to be copied and later records were destroyed by primary GC; C10_D31_regression evaluates the "
         "witness history on the repaired model), C10_torn_index_refused / _repaired (a torn legacy INDEX is refused, after the primary "
         "has already been converted: observation recorded in DESIGN.md). Bit size different from the legacy header's "
         "(Sth/Props/C10e.lean): C10_upgrade_translate(_bad) compose the upgrade with the re-bucketing of C09. Resume: C10_upgrade_resume_partial (interrupted after the primary phase or "
         "after the index is chunked - old file already removed or still present - reopening ends in the same memory state and the same "
         "directory file by file), C10_completed_opens_plainly; the full 'interrupted at ANY step' claim is FALSE in the code = known "
         "finding D14, documented in the model by decide over the executable step list upgradeSteps: C10_D14_marker_window (the only "
         "step of the well-formed example that fails to resume is remap.marker_created: 3 of 5 keys read absent) and C10_D14_pool_lost "
         "(with an unmappable entry, eight windows lose the removal pool).",
    note=SEQ_NOTE + " The byte-level upgrade (chunk file contents, in-place offset rewrite) is not modelled; only its pure core and its result.",
)

META["C16"] = dict(
    engine="lean+extractor+harness(stress,-race)",
    design_ref="DESIGN.md section 5, C16",
    technique="Lean 4 proof of lockset soundness over an abstract lock-trace semantics + kernel-checked obligation over the access table regenerated from the source + -race stress as search/cross-check",
    text="C16_lockset_sound: in a well-formed lock trace two conflicting accesses guarded by a common lock (write side exclusive) are "
         "ordered by happens-before. The hypothesis is discharged for THIS code by an obligation over the access table that a go/ast "
         "extractor regenerates from /repo on every run (fields, read/write, locks held, closed over the call graph from the property's "
         "entry points): every write and every concurrent access of the same field share a lock. A source edit that drops a lock breaks the "
         "obligation; the check then searches for a concrete report with a -race stress run.",
    note="Trusts: Lean kernel; the extractor (syntactic, precision limits listed in DESIGN.md section 9); the abstract trace semantics (program "
         "order, lock synchronisation, fork/join) as an abstraction of the Go memory model; the race detector as the search oracle.",
)
