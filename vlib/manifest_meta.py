HOOK_COMMITS = ["bc07554"]

PENDING = "check not built yet in this round (model and theorems are planned in DESIGN.md section 5); not claimed until its check exists"
NOT_APPLICABLE = {p: PENDING for p in ["C%02d" % i for i in range(1, 18)]}

META = {
    "C08": dict(
        engine="lean+harness(c08)",
        design_ref="DESIGN.md section 5, C08",
        technique="Lean 4 proof (induction over operation sequences, record-list invariant) + byte-exact correspondence with index.Index",
        text="Unbounded proof: for every prefix-free key universe and every disciplined sequence of index Put/Update/Remove the "
             "record list stays sorted, prefix-free, own-prefix, with distinct locations; present keys resolve to their latest "
             "location, absent keys to nothing or another key's location; update/remove touch exactly one entry; the byte codec "
             "round-trips. The model is the per-bucket logic of index.Put/Update/Remove/Get and recordlist.go; it is tied to the "
             "code by byte-for-byte comparison of the record list and every Get after every operation on the real index.",
        note="Trusts: Lean kernel; the correspondence run (generators confined to one bucket, bits 8..24); the in-memory primary as "
             "the source of full keys. Stored prefixes >= 256 bytes are excluded by the codec theorem's hypothesis (the one-byte "
             "length field; negative witness proved).",
    ),
    "C14": dict(
        engine="lean+harness(fc)",
        design_ref="DESIGN.md section 5, C14",
        technique="Lean 4 proof (state invariant over all op sequences and capacities) + correspondence with filecache.FileCache on real files",
        text="Unbounded proof: for every capacity and every client-respecting sequence of Open/Close/Remove/Clear/SetCacheSize a lent "
             "handle is open, no handle is closed twice, a released uncached handle is closed, reference counts equal outstanding "
             "loans, open descriptors <= capacity + lent handles. Tied to the code by comparing handle identity, Len, Cap, fstat "
             "validity of every handle ever returned and the /proc/self/fd count after every operation.",
        note="Trusts: Lean kernel; each FileCache method is one atomic step (holds c.lock throughout); os.File.Stat as the liveness "
             "probe; concurrency itself is covered by C16's lock facts, not here.",
    ),
}
